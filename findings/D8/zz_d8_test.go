package dhcpv4

import (
	"bytes"
	"testing"
)

// D8: printing a parameter request list must not change it (and therefore not what is later sent on the wire).
func TestD8StringDoesNotSortReceiver(t *testing.T) {
	ol := OptionCodeList{OptionRouter, OptionSubnetMask, OptionDomainNameServer}
	before := append([]byte(nil), ol.ToBytes()...)
	_ = ol.String()
	if after := ol.ToBytes(); !bytes.Equal(before, after) {
		t.Fatalf("String() changed the list: encoded %v before, %v after", before, after)
	}
}
