package rfc1035label

import (
	"bytes"
	"testing"
)

// D5: a label set decoded from a buffer must not keep pointing into that buffer.
func TestD5LabelsOwnTheirBytes(t *testing.T) {
	buf := []byte{7, 'e', 'x', 'a', 'm', 'p', 'l', 'e', 3, 'c', 'o', 'm', 0}
	want := append([]byte(nil), buf...)
	l, err := FromBytes(buf)
	if err != nil {
		t.Fatal(err)
	}
	for i := range buf { // the receive buffer is reused
		buf[i] = 0x3f
	}
	if got := l.ToBytes(); !bytes.Equal(got, want) {
		t.Fatalf("re-encoding changed after the source buffer was overwritten: got %v want %v", got, want)
	}
}
