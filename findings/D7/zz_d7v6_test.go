package nclient6

// Demonstration of finding D7 for the DHCPv6 client: see findings/D7/zz_d7_test.go.

import (
	"context"
	"net"
	"testing"
	"time"

	"github.com/insomniacslk/dhcp/dhcpv6"
)

type d7Conn struct {
	in     chan []byte
	closed chan struct{}
}

func (c *d7Conn) ReadFrom(b []byte) (int, net.Addr, error) {
	select {
	case p := <-c.in:
		return copy(b, p), &net.UDPAddr{}, nil
	case <-c.closed:
		return 0, nil, net.ErrClosed
	}
}
func (c *d7Conn) WriteTo(b []byte, a net.Addr) (int, error) { return len(b), nil }
func (c *d7Conn) Close() error                              { close(c.closed); return nil }
func (c *d7Conn) LocalAddr() net.Addr                       { return &net.UDPAddr{} }
func (c *d7Conn) SetDeadline(t time.Time) error             { return nil }
func (c *d7Conn) SetReadDeadline(t time.Time) error         { return nil }
func (c *d7Conn) SetWriteDeadline(t time.Time) error        { return nil }

func TestVerifD7v6(t *testing.T) {
	conn := &d7Conn{in: make(chan []byte, 64), closed: make(chan struct{})}
	c, err := NewWithConn(conn, net.HardwareAddr{1, 2, 3, 4, 5, 6}, WithTimeout(100*time.Millisecond), WithRetry(1))
	if err != nil {
		t.Fatal(err)
	}
	defer c.Close()
	req, err := dhcpv6.NewMessage()
	if err != nil {
		t.Fatal(err)
	}
	// same transaction id, rejected by the matcher (a REPLY while an ADVERTISE is awaited), every 30 ms
	rep := &dhcpv6.Message{MessageType: dhcpv6.MessageTypeReply, TransactionID: req.TransactionID}
	stop := make(chan struct{})
	defer close(stop)
	go func() {
		tk := time.NewTicker(30 * time.Millisecond)
		defer tk.Stop()
		for {
			select {
			case <-stop:
				return
			case <-tk.C:
				select {
				case conn.in <- rep.ToBytes():
				default:
				}
			}
		}
	}()
	ctx, cancel := context.WithTimeout(context.Background(), 3*time.Second)
	defer cancel()
	start := time.Now()
	_, err = c.SendAndRead(ctx, AllDHCPRelayAgentsAndServers, req, IsMessageType(dhcpv6.MessageTypeAdvertise))
	el := time.Since(start)
	if err != ErrNoResponse || el > time.Second {
		t.Fatalf("SendAndRead with timeout 100ms x 1 try returned after %v with %v; want ErrNoResponse after about 100ms", el, err)
	}
}
