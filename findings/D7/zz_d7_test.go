package nclient4

// Demonstration of finding D7 (property C11/C12): a reply with the call's transaction id that the matcher rejects
// restarted the per-try timer, so a call with a 100 ms budget (1 try) kept waiting as long as such replies kept
// arriving (here: until its 3 s context ended). Fails before the fix, passes after it.

import (
	"context"
	"net"
	"testing"
	"time"

	"github.com/insomniacslk/dhcp/dhcpv4"
)

type d7Conn struct {
	in     chan []byte
	closed chan struct{}
}

func (c *d7Conn) ReadFrom(b []byte) (int, net.Addr, error) {
	select {
	case p := <-c.in:
		return copy(b, p), &net.UDPAddr{}, nil
	case <-c.closed:
		return 0, nil, net.ErrClosed
	}
}
func (c *d7Conn) WriteTo(b []byte, a net.Addr) (int, error) { return len(b), nil }
func (c *d7Conn) Close() error                              { close(c.closed); return nil }
func (c *d7Conn) LocalAddr() net.Addr                       { return &net.UDPAddr{} }
func (c *d7Conn) SetDeadline(t time.Time) error             { return nil }
func (c *d7Conn) SetReadDeadline(t time.Time) error         { return nil }
func (c *d7Conn) SetWriteDeadline(t time.Time) error        { return nil }

func TestVerifD7(t *testing.T) {
	hw := net.HardwareAddr{1, 2, 3, 4, 5, 6}
	conn := &d7Conn{in: make(chan []byte, 64), closed: make(chan struct{})}
	c, err := NewWithConn(conn, hw, WithTimeout(100*time.Millisecond), WithRetry(1))
	if err != nil {
		t.Fatal(err)
	}
	defer c.Close()
	req, _ := dhcpv4.NewDiscovery(hw)
	// same transaction id, rejected by the matcher (an ACK while an OFFER is awaited), every 30 ms
	rep, _ := dhcpv4.NewReplyFromRequest(req, dhcpv4.WithMessageType(dhcpv4.MessageTypeAck))
	stop := make(chan struct{})
	defer close(stop)
	go func() {
		tk := time.NewTicker(30 * time.Millisecond)
		defer tk.Stop()
		for {
			select {
			case <-stop:
				return
			case <-tk.C:
				select {
				case conn.in <- rep.ToBytes():
				default:
				}
			}
		}
	}()
	ctx, cancel := context.WithTimeout(context.Background(), 3*time.Second)
	defer cancel()
	start := time.Now()
	_, err = c.SendAndRead(ctx, c.RemoteAddr(), req, IsMessageType(dhcpv4.MessageTypeOffer))
	el := time.Since(start)
	if err != ErrNoResponse || el > time.Second {
		t.Fatalf("SendAndRead with timeout 100ms x 1 try returned after %v with %v; want ErrNoResponse after about 100ms", el, err)
	}
}
