package netboot

import (
	"net"
	"testing"
	"time"

	"github.com/insomniacslk/dhcp/dhcpv6"
)

// D3: a conversation with a REPLY but no ADVERTISE (rapid commit) whose REPLY has no boot file URL makes
// ConversationToNetconf dereference the nil ADVERTISE.
func TestD3ConversationWithoutAdvertise(t *testing.T) {
	reply := &dhcpv6.Message{MessageType: dhcpv6.MessageTypeReply}
	reply.Options.Add(&dhcpv6.OptIANA{Options: dhcpv6.IdentityOptions{Options: []dhcpv6.Option{
		&dhcpv6.OptIAAddress{IPv6Addr: net.ParseIP("2001:db8::1"), PreferredLifetime: time.Hour, ValidLifetime: time.Hour},
	}}})
	reply.Options.Add(dhcpv6.OptDNS(net.ParseIP("2001:db8::53")))
	decoded, err := dhcpv6.FromBytes(reply.ToBytes())
	if err != nil {
		t.Fatalf("the reply must decode: %v", err)
	}
	defer func() {
		if r := recover(); r != nil {
			t.Fatalf("ConversationToNetconf panicked: %v", r)
		}
	}()
	if _, err := ConversationToNetconf([]dhcpv6.DHCPv6{decoded}); err == nil {
		t.Fatal("expected an error: no boot file URL anywhere in the conversation")
	}
}
