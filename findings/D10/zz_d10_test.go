//go:build go1.12 && (darwin || freebsd || linux || netbsd || openbsd || dragonfly)

package nclient4

import (
	"net"
	"testing"
	"time"
)

// D10: a raw broadcast connection created without a bound address (allowed: udpMatch treats a nil bound address as
// "accept everything") panics with a nil pointer dereference on the first WriteTo.
type d10Conn struct{ wrote [][]byte }

func (c *d10Conn) ReadFrom(p []byte) (int, net.Addr, error)  { return 0, nil, nil }
func (c *d10Conn) WriteTo(p []byte, a net.Addr) (int, error) { c.wrote = append(c.wrote, p); return len(p), nil }
func (c *d10Conn) Close() error                               { return nil }
func (c *d10Conn) LocalAddr() net.Addr                        { return nil }
func (c *d10Conn) SetDeadline(time.Time) error                { return nil }
func (c *d10Conn) SetReadDeadline(time.Time) error            { return nil }
func (c *d10Conn) SetWriteDeadline(time.Time) error           { return nil }

func TestD10WriteToUnbound(t *testing.T) {
	raw := &d10Conn{}
	conn := NewBroadcastUDPConn(raw, nil)
	defer func() {
		if r := recover(); r != nil {
			t.Fatalf("WriteTo on an unbound raw connection panicked: %v", r)
		}
	}()
	if _, err := conn.WriteTo([]byte("x"), &net.UDPAddr{IP: net.IPv4bcast, Port: 67}); err != nil {
		t.Fatal(err)
	}
	if len(raw.wrote) != 1 {
		t.Fatalf("expected one frame, got %d", len(raw.wrote))
	}
}
