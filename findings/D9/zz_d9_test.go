package dhcpv4

import "testing"

// D9: an option code that is not followed by its length byte is malformed (RFC 2132 section 2); before the fix
// Options.FromBytes accepted it (err == nil) and stored the code with an empty value, so that e.g. the
// relay-agent-information accessor returned a value for the malformed raw sub-option list [1].
func TestD9CodeWithoutLength(t *testing.T) {
	o := make(Options)
	if err := o.FromBytes([]byte{1}); err == nil {
		t.Fatalf("option code without a length byte accepted: %v", o)
	}
	p, _ := New()
	p.Options[uint8(OptionRelayAgentInformation)] = []byte{1}
	if r := p.RelayAgentInfo(); r != nil {
		t.Fatalf("RelayAgentInfo() returned %v for the malformed raw value [1]", r)
	}
}
