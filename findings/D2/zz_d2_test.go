package ztpv6

import (
	"testing"

	"github.com/insomniacslk/dhcp/dhcpv6"
)

// D2: ParseVendorData takes any dhcpv6.DHCPv6. For a decoded relay message whose own options carry a Ciena vendor
// class string it asserts packet.(*dhcpv6.Message) and panics.
func TestD2ParseVendorDataRelay(t *testing.T) {
	vc := &dhcpv6.OptVendorClass{EnterpriseNumber: 1271, Data: [][]byte{[]byte("1271-23422Z11-123")}}
	relay := &dhcpv6.RelayMessage{MessageType: dhcpv6.MessageTypeRelayForward, LinkAddr: make([]byte, 16), PeerAddr: make([]byte, 16)}
	relay.Options.Add(vc)
	decoded, err := dhcpv6.FromBytes(relay.ToBytes())
	if err != nil {
		t.Fatalf("the relay message must decode: %v", err)
	}
	defer func() {
		if r := recover(); r != nil {
			t.Fatalf("ParseVendorData panicked on a decoded relay message: %v", r)
		}
	}()
	vd, err := ParseVendorData(decoded)
	if err != nil {
		t.Fatalf("unexpected error: %v", err)
	}
	if vd.Model != "23422Z11-123" {
		t.Fatalf("unexpected model %q", vd.Model)
	}
}
