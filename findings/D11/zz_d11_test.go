package dhcpv6

// Demonstration of finding D11 (properties C05 and C06), the 4rd Map Rule sibling of D4: prefix lengths larger than
// 32 (IPv4 prefix) or 128 (IPv6 prefix) are accepted; the decoded rule has no usable masks, so what was read is not
// what an RFC 7600 decoder reads, it re-encodes with prefix lengths 0, and decoding that gives a different rule.
// The test passes on a tree where the defect is absent (the option is rejected, or survives the round trip).

import "testing"

func TestD11MapRulePrefixLengths(t *testing.T) {
	in := make([]byte, 24)
	in[0], in[1], in[2] = 40, 200, 5
	copy(in[4:], []byte{10, 1, 2, 3})
	copy(in[8:], []byte{0x20, 1, 0xd, 0xb8, 1})
	var q Opt4RDMapRule
	if err := q.FromBytes(in); err != nil {
		return // rejected
	}
	b1 := q.ToBytes()
	var r Opt4RDMapRule
	if err := r.FromBytes(b1); err != nil {
		t.Fatalf("re-encoding of an accepted option is not accepted: %v", err)
	}
	if q.Prefix4.String() != r.Prefix4.String() || q.Prefix6.String() != r.Prefix6.String() {
		t.Fatalf("decode(encode(decode(in))) differs from decode(in): %v %v became %v %v (prefix lengths %d/%d re-encoded as %d/%d)",
			q.Prefix4, q.Prefix6, r.Prefix4, r.Prefix6, in[0], in[1], b1[0], b1[1])
	}
}
