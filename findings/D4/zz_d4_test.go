package dhcpv6

// Demonstration of finding D4 (property C06, also C05's "every typed field equals what an RFC decoder reads"):
// an IA Prefix option whose prefix-length byte is larger than 128 is accepted; the decoded value keeps the prefix
// address but has no usable mask, so it re-encodes with prefix length 0, and decoding that gives an option without
// prefix: decode, encode, decode is not a fixpoint and the address is lost on the way.
// The test passes on a tree where the defect is absent (the option is rejected, or survives the round trip).

import (
	"bytes"
	"testing"
)

func TestD4IAPrefixLength(t *testing.T) {
	in := make([]byte, 25)
	in[3], in[7] = 1, 2 // lifetimes 1 s and 2 s
	in[8] = 200         // prefix length > 128
	copy(in[9:], []byte{0x20, 0x01, 0x0d, 0xb8, 0, 0, 0x12})
	var q OptIAPrefix
	if err := q.FromBytes(in); err != nil {
		return // rejected: nothing to re-encode
	}
	b1 := q.ToBytes()
	var r OptIAPrefix
	if err := r.FromBytes(b1); err != nil {
		t.Fatalf("re-encoding of an accepted option is not accepted: %v", err)
	}
	if (r.Prefix == nil) != (q.Prefix == nil) {
		t.Fatalf("decode(encode(decode(in))) differs from decode(in): prefix %v became %v (input prefix length %d, re-encoded as %d)", q.Prefix, r.Prefix, in[8], b1[8])
	}
	if b2 := r.ToBytes(); !bytes.Equal(b1, b2) {
		t.Fatalf("second encoding differs from the first: % x vs % x", b1, b2)
	}
}
