package nclient4

import (
	"net"
	"testing"
	"time"
)

// scriptedConn returns the given frames one by one.
type d1Conn struct{ frames [][]byte }

func (c *d1Conn) ReadFrom(p []byte) (int, net.Addr, error) {
	if len(c.frames) == 0 {
		return 0, nil, net.ErrClosed
	}
	f := c.frames[0]
	c.frames = c.frames[1:]
	return copy(p, f), nil, nil
}
func (c *d1Conn) WriteTo(p []byte, a net.Addr) (int, error) { return len(p), nil }
func (c *d1Conn) Close() error                              { return nil }
func (c *d1Conn) LocalAddr() net.Addr                       { return nil }
func (c *d1Conn) SetDeadline(time.Time) error               { return nil }
func (c *d1Conn) SetReadDeadline(time.Time) error           { return nil }
func (c *d1Conn) SetWriteDeadline(time.Time) error          { return nil }

// D1: IHL 5, IP total length 24 (payload 4 < UDP header), 46-byte frame (link padding), UDP, destination port 68.
func TestD1ShortIPPayload(t *testing.T) {
	f := make([]byte, 46)
	f[0] = 0x45
	f[2], f[3] = 0, 24
	f[9] = 17
	f[20+2], f[20+3] = 0, 68
	conn := NewBroadcastUDPConn(&d1Conn{frames: [][]byte{f}}, &net.UDPAddr{Port: 68})
	defer func() {
		if r := recover(); r != nil {
			t.Fatalf("ReadFrom panicked on a malformed frame: %v", r)
		}
	}()
	_, _, err := conn.ReadFrom(make([]byte, 1500))
	if err == nil {
		t.Fatalf("a frame whose IP payload is shorter than a UDP header must be skipped, not returned")
	}
}
