package main

import (
	"encoding/json"
	"fmt"
	"go/types"
	"os"
	"os/exec"
	"path/filepath"
	"regexp"
	"strconv"
	"strings"
	"time"

	"golang.org/x/tools/go/ssa"
)

// Replay of a candidate counterexample on the real code.
//
// Scope: the function under verification is a package-level function or a method with a pointer receiver to a struct,
// and every other parameter is a []byte, a string, a bool or an integer. The solver is asked (quantified assertions
// dropped) for a model of the negated obligation; the parameter values are read out of it; an in-package Go test that
// calls the real function with those values is injected with `go test -overlay` (nothing is written into /repo).
//   - safety obligations (index, slice, nil, division, type assertion, explicit panic): confirmed iff the call panics;
//   - postconditions: confirmed iff the clause, translated to Go (it may use the specification functions, which are
//     real Go functions in the hook files), evaluates to false after the call.
// Anything outside this scope, or a model that does not reproduce (candidate models ignore the quantified axioms),
// leaves the violation reported with "no-failing-input-found".

const replayMaxBytes = 512

var safetyKinds = map[string]bool{"bounds": true, "slice": true, "nil-deref": true, "nil-invoke": true, "div0": true, "explicit-panic": true, "type-assert": true, "nil-map-write": true, "close-nil": true, "make": true, "shift": true}

func (eng *Engine) runHarness(id string, cfg *PropConfig, v *violation, model string) (bool, string) {
	r := v.res
	if r == nil || r.gen == nil || r.gen.top == nil || r.Obl == nil {
		return false, ""
	}
	if !eng.replayBudget {
		return false, "replay: not attempted (only the first five violations of a run are replayed on the real code)"
	}
	g := r.gen
	fn := g.top
	if fn.Pkg == nil || fn.Synthetic != "" || fn.Parent() != nil || !eng.inRepo(fn) {
		return false, ""
	}
	isSafety := safetyKinds[r.Obl.kind]
	isPost := r.Obl.kind == "post"
	if !isSafety && !isPost {
		return false, "replay: obligation kind " + r.Obl.kind + " has no run-time counterpart (not replayed)"
	}
	// parameters
	type par struct {
		name, kind string // kind: bytes | string | int | bool | recv
		typ        types.Type
	}
	var pars []par
	for i, p := range fn.Params {
		t := p.Type()
		if i == 0 && fn.Signature.Recv() != nil {
			pt, ok := t.Underlying().(*types.Pointer)
			if !ok {
				return false, "replay: receiver is not a pointer (not replayed)"
			}
			if _, ok := pt.Elem().Underlying().(*types.Struct); !ok {
				if _, isSl := pt.Elem().Underlying().(*types.Slice); !isSl {
					return false, "replay: receiver type not supported (not replayed)"
				}
			}
			pars = append(pars, par{p.Name(), "recv", t})
			continue
		}
		switch u := t.Underlying().(type) {
		case *types.Slice:
			if b, ok := u.Elem().Underlying().(*types.Basic); ok && b.Kind() == types.Uint8 {
				pars = append(pars, par{p.Name(), "bytes", t})
				continue
			}
		case *types.Basic:
			switch {
			case u.Info()&types.IsString != 0:
				pars = append(pars, par{p.Name(), "string", t})
				continue
			case u.Info()&types.IsBoolean != 0:
				pars = append(pars, par{p.Name(), "bool", t})
				continue
			case u.Info()&types.IsInteger != 0:
				pars = append(pars, par{p.Name(), "int", t})
				continue
			}
		}
		return false, fmt.Sprintf("replay: parameter %s of type %s is outside the replayable types (not replayed)", p.Name(), t)
	}
	// ask for the values
	var terms []string
	for _, p := range pars {
		n := g.paramTerms[p.name]
		if n == "" {
			return false, ""
		}
		switch p.kind {
		case "bytes":
			terms = append(terms, fmt.Sprintf("(sllen %s)", n), fmt.Sprintf("(sref %s)", n))
			for i := 0; i < replayMaxBytes; i++ {
				terms = append(terms, fmt.Sprintf("(select (select %s (sref %s)) (+ (soff %s) %d))", g.entry.H["I"], n, n, i))
			}
		case "string":
			terms = append(terms, fmt.Sprintf("(slen %s)", n))
			for i := 0; i < replayMaxBytes; i++ {
				terms = append(terms, fmt.Sprintf("(sat %s %d)", n, i))
			}
		case "int", "bool":
			terms = append(terms, n)
		}
	}
	// small inputs first: candidate models are easier to read and to replay
	var vals []string
	why := ""
	for _, bound := range []int{24, replayMaxBytes, 0} {
		var extra []string
		if bound > 0 {
			for _, p := range pars {
				n := g.paramTerms[p.name]
				switch p.kind {
				case "bytes":
					extra = append(extra, fmt.Sprintf("(assert (<= (sllen %s) %d))", n, bound))
				case "string":
					extra = append(extra, fmt.Sprintf("(assert (<= (slen %s) %d))", n, bound))
				}
			}
		}
		vals, why = eng.modelValues(g, r, terms, extra)
		if vals != nil {
			break
		}
	}
	if vals == nil {
		return false, "replay: " + why
	}
	// Go literals
	k := 0
	next := func() string { s := vals[k]; k++; return s }
	var decl, callArgs []string
	recvExpr := ""
	for _, p := range pars {
		switch p.kind {
		case "recv":
			et := p.typ.Underlying().(*types.Pointer).Elem()
			decl = append(decl, fmt.Sprintf("\tvar recv0 %s", types.TypeString(et, func(pk *types.Package) string {
				if pk == fn.Pkg.Pkg {
					return ""
				}
				return pk.Name()
			})))
			recvExpr = "(&recv0)"
		case "bytes", "string":
			var n int
			if p.kind == "bytes" {
				n = atoiSMT(next())
				ref := atoiSMT(next())
				if ref == 0 {
					n = -1 // nil slice
				}
			} else {
				n = atoiSMT(next())
			}
			var bs []string
			for i := 0; i < replayMaxBytes; i++ {
				b := atoiSMT(next())
				if i < n {
					bs = append(bs, strconv.Itoa(((b%256)+256)%256))
				}
			}
			if n > replayMaxBytes {
				return false, fmt.Sprintf("replay: the candidate model needs a %d-byte %s (limit %d): not replayed", n, p.name, replayMaxBytes)
			}
			lit := "[]byte{" + strings.Join(bs, ", ") + "}"
			if n < 0 {
				lit = "[]byte(nil)"
			}
			if p.kind == "string" {
				lit = "string(" + lit + ")"
			}
			decl = append(decl, fmt.Sprintf("\t%s := %s", "arg_"+p.name, lit))
			callArgs = append(callArgs, "arg_"+p.name)
		case "int":
			decl = append(decl, fmt.Sprintf("\tvar arg_%s %s = %s(%d)", p.name, goTypeName(p.typ, fn), goTypeName(p.typ, fn), atoiSMT(next())))
			callArgs = append(callArgs, "arg_"+p.name)
		case "bool":
			decl = append(decl, fmt.Sprintf("\targ_%s := %s", p.name, next()))
			callArgs = append(callArgs, "arg_"+p.name)
		}
	}
	call := fn.Name() + "(" + strings.Join(callArgs, ", ") + ")"
	if recvExpr != "" {
		call = recvExpr + "." + call
	}
	nres := fn.Signature.Results().Len()
	var lhs []string
	for i := 0; i < nres; i++ {
		lhs = append(lhs, fmt.Sprintf("res%d", i))
	}
	assign := ""
	if nres > 0 {
		assign = strings.Join(lhs, ", ") + " := "
	}
	check := "\tt.Log(\"REPLAY-NO-PANIC\")\n"
	usesRes := ""
	for _, l := range lhs {
		usesRes += "\t_ = " + l + "\n"
	}
	if isPost {
		goExpr, ok := eng.postToGo(r.Obl.text, fn, g)
		if !ok {
			return false, "replay: the postcondition uses contract-only constructs (quantifier, heap predicate, old): not translated to Go, not replayed"
		}
		check = fmt.Sprintf("\tif !(%s) {\n\t\tt.Fatalf(\"REPLAY-POST-FALSE: %%s\", %q)\n\t}\n\tt.Log(\"REPLAY-POST-HOLDS\")\n", goExpr, r.Obl.text)
	}
	src := fmt.Sprintf("//go:build verif\n\npackage %s\n\nimport \"testing\"\n\nfunc TestVerifReplay(t *testing.T) {\n%s\n\tdefer func() {\n\t\tif r := recover(); r != nil {\n\t\t\tt.Fatalf(\"REPLAY-PANIC: %%v\", r)\n\t\t}\n\t}()\n\t%s%s\n%s%s}\n",
		fn.Pkg.Pkg.Name(), strings.Join(decl, "\n"), assign, call, usesRes, check)
	// overlay
	pkgDir := filepath.Dir(eng.prog.Fset.Position(fn.Pos()).Filename)
	tmp, err := os.MkdirTemp("", "verif-replay-")
	if err != nil {
		return false, ""
	}
	defer os.RemoveAll(tmp)
	testFile := filepath.Join(tmp, "zz_verif_replay_test.go")
	os.WriteFile(testFile, []byte(src), 0o644)
	ov := map[string]map[string]string{"Replace": {filepath.Join(pkgDir, "zz_verif_replay_test.go"): testFile}}
	ob, _ := json.Marshal(ov)
	ovFile := filepath.Join(tmp, "ov.json")
	os.WriteFile(ovFile, ob, 0o644)
	rel, _ := filepath.Rel(eng.repoDir, pkgDir)
	cmd := exec.Command("go", "test", "-tags", "verif", "-overlay", ovFile, "-vet=off", "-count=1", "-timeout", "60s", "-run", "^TestVerifReplay$", "./"+rel+"/")
	cmd.Dir = eng.repoDir
	cmd.Env = append(os.Environ(), "GOFLAGS=-mod=mod", "GOPROXY=off", "GOSUMDB=off", "GOTOOLCHAIN=local")
	done := make(chan struct{})
	var outB []byte
	go func() { outB, _ = cmd.CombinedOutput(); close(done) }()
	select {
	case <-done:
	case <-time.After(120 * time.Second):
		if cmd.Process != nil {
			cmd.Process.Kill()
		}
		return false, "replay: the test run did not finish in 120 s"
	}
	out := string(outB)
	short := out
	if len(short) > 1500 {
		short = short[:1500] + "\n..."
	}
	report := "generated test (injected with go test -overlay, package " + fn.Pkg.Pkg.Path() + "):\n" + src + "\noutput:\n" + short
	switch {
	case isSafety && strings.Contains(out, "REPLAY-PANIC"):
		return true, "CONFIRMED: the real code panics on the candidate input\n" + report
	case isPost && strings.Contains(out, "REPLAY-POST-FALSE"):
		return true, "CONFIRMED: the postcondition is false on the real code for the candidate input\n" + report
	case isPost && strings.Contains(out, "REPLAY-PANIC"):
		return true, "CONFIRMED: the real code panics on the candidate input (while checking a postcondition)\n" + report
	}
	// The candidate model was of no use (it ignores the quantified axioms). Second attempt: search for a failing input on
	// the real code - pseudo-random arguments (fixed seed), the function's preconditions checked in Go, the same
	// run-time reading of the obligation. Only for functions whose preconditions translate to Go.
	if found, rep := eng.searchHarness(fn, g, r, isPost, func() []string {
		var ps []string
		for _, p := range pars {
			ps = append(ps, p.name+":"+p.kind)
		}
		return ps
	}(), pkgDir); found {
		return true, rep
	} else if rep != "" {
		report += "\n" + rep
	}
	return false, "not reproduced (candidate models ignore quantified axioms, so this does not clear the obligation)\n" + report
}

// searchHarness: see the end of runHarness.
func (eng *Engine) searchHarness(fn *ssa.Function, g *Gen, r *OblResult, isPost bool, pars []string, pkgDir string) (bool, string) {
	ct := eng.contractFor(fn)
	var pre []string
	if ct != nil {
		for _, cl := range ct.Requires {
			e, ok := eng.postToGo("ensures "+cl.Text, fn, g)
			if !ok {
				return false, "search on the real code: not attempted (a precondition does not translate to Go)"
			}
			pre = append(pre, "("+e+")")
		}
	}
	goExpr := "true"
	if isPost {
		var ok bool
		goExpr, ok = eng.postToGo(r.Obl.text, fn, g)
		if !ok {
			return false, ""
		}
	}
	var decl, callArgs, show []string
	recvExpr := ""
	for i, pk := range pars {
		name, kind := pk[:strings.LastIndex(pk, ":")], pk[strings.LastIndex(pk, ":")+1:]
		p := fn.Params[i]
		switch kind {
		case "recv":
			et := p.Type().Underlying().(*types.Pointer).Elem()
			decl = append(decl, fmt.Sprintf("\t\tvar recv0 %s", types.TypeString(et, func(pkg *types.Package) string {
				if pkg == fn.Pkg.Pkg {
					return ""
				}
				return pkg.Name()
			})))
			recvExpr = "(&recv0)"
		case "bytes":
			decl = append(decl, fmt.Sprintf("\t\targ_%s := genBytes()", name))
			callArgs = append(callArgs, "arg_"+name)
			show = append(show, "arg_"+name)
		case "string":
			decl = append(decl, fmt.Sprintf("\t\targ_%s := string(genBytes())", name))
			callArgs = append(callArgs, "arg_"+name)
			show = append(show, "arg_"+name)
		case "int":
			decl = append(decl, fmt.Sprintf("\t\tvar arg_%s %s = %s(genInt())", name, goTypeName(p.Type(), fn), goTypeName(p.Type(), fn)))
			callArgs = append(callArgs, "arg_"+name)
			show = append(show, "arg_"+name)
		case "bool":
			decl = append(decl, fmt.Sprintf("\t\targ_%s := next()%%2 == 0", name))
			callArgs = append(callArgs, "arg_"+name)
			show = append(show, "arg_"+name)
		}
	}
	call := fn.Name() + "(" + strings.Join(callArgs, ", ") + ")"
	if recvExpr != "" {
		call = recvExpr + "." + call
	}
	nres := fn.Signature.Results().Len()
	var lhs []string
	for i := 0; i < nres; i++ {
		lhs = append(lhs, fmt.Sprintf("res%d", i))
	}
	assign, uses := "", ""
	if nres > 0 {
		assign = strings.Join(lhs, ", ") + " := "
		for _, l := range lhs {
			uses += "\t\t\t_ = " + l + "\n"
		}
	}
	preCheck := ""
	if len(pre) > 0 {
		preCheck = "\t\tif !(" + strings.Join(pre, " && ") + ") {\n\t\t\tcontinue\n\t\t}\n"
	}
	fmtArgs, fmtVerbs := "", ""
	for _, sh := range show {
		fmtVerbs += " " + sh[4:] + "=%#v"
		fmtArgs += ", " + sh
	}
	src := fmt.Sprintf(`//go:build verif

package %s

import (
	"testing"
	"time"
)

func TestVerifSearch(t *testing.T) {
	rng := uint64(88172645463325252)
	next := func() uint64 { rng ^= rng << 13; rng ^= rng >> 7; rng ^= rng << 17; return rng }
	genBytes := func() []byte {
		if next()%%24 == 0 {
			return nil
		}
		n := int(next() %% 72)
		b := make([]byte, n)
		for i := range b {
			switch next() %% 4 {
			case 0:
				b[i] = byte(next())
			case 1:
				b[i] = 0
			case 2:
				b[i] = 0xff
			default:
				b[i] = byte(next() %% 40)
			}
		}
		return b
	}
	genInt := func() int64 {
		switch next() %% 4 {
		case 0:
			return int64(next() %% 300)
		case 1:
			return -int64(next() %% 300)
		case 2:
			return int64(next() %% 70000)
		}
		return int64(next())
	}
	_, _ = genBytes, genInt
	deadline := time.Now().Add(8 * time.Second)
	for trial := 0; trial < 400000 && time.Now().Before(deadline); trial++ {
%s
%s		ok, pan := func() (ok bool, pan interface{}) {
			defer func() {
				if r := recover(); r != nil {
					pan = r
				}
			}()
			%s%s
%s			return %s, nil
		}()
		if pan != nil {
			t.Fatalf("REPLAY-SEARCH-PANIC trial %%d:%s: %%v", trial%s, pan)
		}
		if !ok {
			t.Fatalf("REPLAY-SEARCH-POST-FALSE trial %%d:%s", trial%s)
		}
	}
	t.Log("REPLAY-SEARCH-NOTHING")
}
`, fn.Pkg.Pkg.Name(), strings.Join(decl, "\n"), preCheck, assign, call, uses, goExpr, fmtVerbs, fmtArgs, fmtVerbs, fmtArgs)
	tmp, err := os.MkdirTemp("", "verif-search-")
	if err != nil {
		return false, ""
	}
	defer os.RemoveAll(tmp)
	testFile := filepath.Join(tmp, "zz_verif_search_test.go")
	os.WriteFile(testFile, []byte(src), 0o644)
	ov := map[string]map[string]string{"Replace": {filepath.Join(pkgDir, "zz_verif_search_test.go"): testFile}}
	ob, _ := json.Marshal(ov)
	ovFile := filepath.Join(tmp, "ov.json")
	os.WriteFile(ovFile, ob, 0o644)
	rel, _ := filepath.Rel(eng.repoDir, pkgDir)
	cmd := exec.Command("go", "test", "-tags", "verif", "-overlay", ovFile, "-vet=off", "-count=1", "-timeout", "60s", "-run", "^TestVerifSearch$", "./"+rel+"/")
	cmd.Dir = eng.repoDir
	cmd.Env = append(os.Environ(), "GOFLAGS=-mod=mod", "GOPROXY=off", "GOSUMDB=off", "GOTOOLCHAIN=local")
	outB, _ := cmd.CombinedOutput()
	out := string(outB)
	short := out
	if len(short) > 1500 {
		short = short[:1500] + "\n..."
	}
	rep := "search for a failing input on the real code (pseudo-random arguments, fixed seed, preconditions checked, 8 s):\n" + src + "\noutput:\n" + short
	switch {
	case isPost && strings.Contains(out, "REPLAY-SEARCH-POST-FALSE"):
		return true, "CONFIRMED by search: the postcondition is false on the real code for the input shown in the output\n" + rep
	case strings.Contains(out, "REPLAY-SEARCH-PANIC"):
		return true, "CONFIRMED by search: the real code panics on the input shown in the output\n" + rep
	}
	return false, rep
}

func atoiSMT(s string) int {
	s = strings.TrimSpace(s)
	neg := false
	if strings.HasPrefix(s, "(-") {
		neg = true
		s = strings.TrimSuffix(strings.TrimSpace(s[2:]), ")")
	}
	n, err := strconv.Atoi(strings.TrimSpace(s))
	if err != nil {
		return 0
	}
	if neg {
		return -n
	}
	return n
}

func goTypeName(t types.Type, fn *ssa.Function) string {
	return types.TypeString(t, func(pk *types.Package) string {
		if pk == fn.Pkg.Pkg {
			return ""
		}
		return pk.Name()
	})
}

// modelValues: values of the given terms in a model of the negated obligation with the quantified assertions dropped
func (eng *Engine) modelValues(g *Gen, r *OblResult, terms []string, extra []string) ([]string, string) {
	q := dropQuantified(g.buildQuery(r.Obl, "", true, true))
	q = strings.Replace(q, "(get-model)\n", "", 1)
	if len(extra) > 0 {
		q = strings.Replace(q, "(check-sat)", strings.Join(extra, "\n")+"\n(check-sat)", 1)
	}
	var sb strings.Builder
	sb.WriteString(q)
	for _, t := range terms {
		sb.WriteString("(get-value (" + t + "))\n")
	}
	f := filepath.Join(r.dir, fmt.Sprintf("o%04d.values.smt2", r.idx))
	os.WriteFile(f, []byte(sb.String()), 0o644)
	ans, out, _ := runSolver(solvers[0], f, 20*time.Second)
	if ans != "sat" {
		return nil, "no candidate model (the solver answered " + ans + " with the quantified assertions dropped)"
	}
	// one line per get-value: ((term value))
	var vals []string
	lines := strings.Split(out, "\n")
	re := regexp.MustCompile(`^\(\(.*\s(\(- \d+\)|-?\d+|true|false)\)\)$`)
	for _, l := range lines {
		l = strings.TrimSpace(l)
		if m := re.FindStringSubmatch(l); m != nil {
			vals = append(vals, m[1])
		}
	}
	if len(vals) != len(terms) {
		return nil, fmt.Sprintf("could not read the candidate values (%d of %d)", len(vals), len(terms))
	}
	return vals, ""
}

var goOnlyRe = regexp.MustCompile(`\b(forall|exists|fresh|allocated|exact|ref|off|typeIs|sameSlice|unchanged|has|mapdom|mapval|mapview|seen|seq|old|rangeval|rangeindex|cap)\b|\$`)
var identRe = regexp.MustCompile(`[A-Za-z_][A-Za-z0-9_.]*`)

// postToGo translates "ensures <clause>" into a Go boolean expression over arg_*/res*/recv0, when the clause stays in
// the common subset of the contract language and Go (plus ==>, ite, lets that are themselves in that subset).
func (eng *Engine) postToGo(text string, fn *ssa.Function, g *Gen) (string, bool) {
	cl := strings.TrimSpace(strings.TrimPrefix(text, "ensures"))
	if goOnlyRe.MatchString(cl) || strings.Contains(cl, "<==>") {
		return "", false
	}
	ct := eng.contractFor(fn)
	lets := map[string]string{}
	if ct != nil {
		for _, l := range ct.Lets {
			if goOnlyRe.MatchString(l.Text) {
				lets[l.Label] = ""
				continue
			}
			lets[l.Label] = l.Text
		}
	}
	names := map[string]string{}
	recvName := ""
	for i, p := range fn.Params {
		if i == 0 && fn.Signature.Recv() != nil {
			recvName = p.Name()
			names[p.Name()] = "(&recv0)"
			continue
		}
		names[p.Name()] = "arg_" + p.Name()
	}
	_ = recvName
	res := fn.Signature.Results()
	for i := 0; i < res.Len(); i++ {
		names[fmt.Sprintf("result%d", i)] = fmt.Sprintf("res%d", i)
		if res.At(i).Name() != "" {
			names[res.At(i).Name()] = fmt.Sprintf("res%d", i)
		}
	}
	if res.Len() >= 1 {
		names["result"] = "res0"
		if isErrorType(res.At(res.Len() - 1).Type()) {
			names["err"] = fmt.Sprintf("res%d", res.Len()-1)
		}
	}
	bad := false
	var subst func(s string, depth int) string
	subst = func(s string, depth int) string {
		return identRe.ReplaceAllStringFunc(s, func(id string) string {
			head := id
			rest := ""
			if i := strings.Index(id, "."); i >= 0 {
				head, rest = id[:i], id[i:]
			}
			if v, ok := lets[head]; ok {
				if v == "" || depth > 3 {
					bad = true
					return id
				}
				return "(" + subst(v, depth+1) + ")" + rest
			}
			if v, ok := names[head]; ok {
				return v + rest
			}
			return id
		})
	}
	out := subst(cl, 0)
	if bad {
		return "", false
	}
	// a ==> b  (right associative, top level only) and ite(c, a, b)
	if strings.Contains(out, "ite(") {
		return "", false
	}
	parts := splitTop(out, "==>")
	expr := strings.TrimSpace(parts[len(parts)-1])
	for i := len(parts) - 2; i >= 0; i-- {
		expr = fmt.Sprintf("(!(%s) || (%s))", strings.TrimSpace(parts[i]), expr)
	}
	if strings.Contains(expr, "==>") {
		return "", false
	}
	return expr, true
}
