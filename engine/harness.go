package main

// runHarness: see replay harnesses (bounded run-time assertion checking on the real code). Filled in below.
func (eng *Engine) runHarness(id string, cfg *PropConfig, v *violation, model string) (bool, string) {
	return false, ""
}
