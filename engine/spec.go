package main

import (
	"fmt"
	"go/ast"
	"go/token"
	"go/types"
	"strings"
)

// Specification functions are ordinary Go functions in the verif-tagged files (so they are compiled and can be
// executed by replays), written in a pure subset:
//     x := e | var x T = e | if c { ... } [else { ... }] | return e | switch-free
// They are translated to an uninterpreted SMT function plus one definitional axiom triggered on its application.

type specFn struct {
	name    string // full name pkgpath.Func
	smtName string
	obj     *types.Func
	decl    *ast.FuncDecl
	pkg     *types.Package
	ct      *Contract // optional: decreases
}

func (g *Gen) useSpec(sf *specFn) {
	if g.specUsed[sf.name] {
		return
	}
	g.specUsed[sf.name] = true
	sig := sf.obj.Type().(*types.Signature)
	var sorts []string
	for i := 0; i < sig.Params().Len(); i++ {
		sorts = append(sorts, g.specSort(sig.Params().At(i).Type()))
	}
	rs := g.specSort(sig.Results().At(0).Type())
	decl := fmt.Sprintf("(declare-fun %s (%s) %s)", sf.smtName, strings.Join(sorts, " "), rs)
	// body
	e := &evalEnv{g: g, a: &Act{g: g}, st: &State{H: map[string]string{}}, bound: map[string]tv{}, pkg: sf.pkg, limited: sf}
	var decls, args, ranges []string
	for i := 0; i < sig.Params().Len(); i++ {
		p := sig.Params().At(i)
		bn := "p_" + sanitize(p.Name())
		if p.Name() == "" || p.Name() == "_" {
			bn = fmt.Sprintf("p_%d", i)
		}
		e.bound[p.Name()] = tv{term: bn, typ: p.Type(), spec: isSpecSeqType(p.Type()), smap: isSpecMapType(p.Type())}
		decls = append(decls, fmt.Sprintf("(%s %s)", bn, sorts[i]))
		args = append(args, bn)
		if rf := rangeFact(p.Type(), bn); rf != "" {
			if bits, _, _ := intBits(p.Type()); bits < 64 {
				ranges = append(ranges, rf)
			}
		}
	}
	app := fmt.Sprintf("(%s %s)", sf.smtName, strings.Join(args, " "))
	if len(args) == 0 {
		app = sf.smtName
	}
	ax := "true"
	if sf.ct != nil && sf.ct.Trusted {
		// abstract specification function (contract marked trusted): uninterpreted, constrained only by its ensures
	} else {
		body := e.specBlock(sf.decl.Body.List, sig.Results().At(0).Type())
		ax = fmt.Sprintf("(= %s %s)", app, body)
	}
	if rf := rangeFact(sig.Results().At(0).Type(), app); rf != "" {
		ax = fmt.Sprintf("(and %s %s)", ax, rf)
	}
	// proven properties of the specification function (its own contract is verified like any other function's:
	// recursion = induction hypothesis) are available wherever it is applied
	propAx := ""
	selfSCC := false
	if g.top != nil {
		if ts := g.eng.specBySSA(g.top); ts != nil && (ts == sf || g.eng.specSCC(ts.name) == g.eng.specSCC(sf.name)) {
			// the function under verification (or one mutually recursive with it): its stated properties are what is
			// being proved, they are available only through the induction hypothesis at recursive calls
			selfSCC = true
		}
	}
	if sf.ct != nil && len(sf.ct.Ensures) > 0 && !selfSCC {
		pe := &evalEnv{g: g, a: &Act{g: g}, st: &State{H: map[string]string{}}, bound: map[string]tv{}, pkg: sf.pkg}
		for k, v := range e.bound {
			pe.bound[k] = v
		}
		rt := sig.Results().At(0).Type()
		appLim := app
		if len(args) > 0 {
			// stated over the limited copy: it fires for every application (limited or not) without creating unfoldable terms
			appLim = fmt.Sprintf("(%s_L %s)", sf.smtName, strings.Join(args, " "))
		}
		pe.bound["result"] = tv{term: appLim, typ: rt, spec: isSpecSeqType(rt)}
		var pres, posts []string
		for _, cl := range sf.ct.Requires {
			pres = append(pres, pe.evalBool(cl.Expr))
		}
		for _, cl := range sf.ct.Ensures {
			posts = append(posts, pe.evalBool(cl.Expr))
		}
		prop := "(and " + strings.Join(posts, " ") + ")"
		if len(pres) > 0 {
			prop = fmt.Sprintf("(=> (and %s) %s)", strings.Join(pres, " "), prop)
		}
		propAx = prop
	}
	if len(ranges) > 0 {
		ax = fmt.Sprintf("(=> (and %s) %s)", strings.Join(ranges, " "), ax)
		if propAx != "" {
			propAx = fmt.Sprintf("(=> (and %s) %s)", strings.Join(ranges, " "), propAx)
		}
	}
	var axiom string
	if len(args) == 0 {
		axiom = fmt.Sprintf("(assert %s)", ax)
		if propAx != "" {
			axiom += fmt.Sprintf("\n(assert %s)", propAx)
		}
	} else {
		axiom = fmt.Sprintf("(assert (forall (%s) (! %s :pattern (%s))))", strings.Join(decls, " "), ax, app)
		if propAx != "" {
			axiom += fmt.Sprintf("\n(assert (forall (%s) (! %s :pattern ((%s_L %s)))))", strings.Join(decls, " "), propAx, sf.smtName, strings.Join(args, " "))
		}
	}
	// targeted extensionality for accumulator parameters (DESIGN 5.4): two applications that differ only in an
	// accumulator argument trigger the extensional comparison of those arguments
	for i := 0; i < sig.Params().Len(); i++ {
		p := sig.Params().At(i)
		_ = p
		eqf := ""
		switch sorts[i] {
		case "BSeq":
			eqf = "seqeq"
		case "SSeq":
			eqf = "qeq"
		case "SMap":
			eqf = "smeq"
		}
		if eqf == "" {
			continue
		}
		args2 := append([]string{}, args...)
		args2[i] = "acc_other"
		app1 := fmt.Sprintf("(%s_L %s)", sf.smtName, strings.Join(args, " "))
		app2 := fmt.Sprintf("(%s_L %s)", sf.smtName, strings.Join(args2, " "))
		axiom += fmt.Sprintf("\n(assert (forall (%s (acc_other %s)) (! (=> (%s %s acc_other) (= %s acc_other)) :pattern (%s %s))))", strings.Join(decls, " "), sorts[i], eqf, args[i], args[i], app1, app2)
	}
	// recursive occurrences in the body use the "limited" copy, which does not trigger the definitional axiom:
	// one unfolding per application present in the problem (Dafny-style fuel 1), no matching loop
	declL := fmt.Sprintf("(declare-fun %s_L (%s) %s)", sf.smtName, strings.Join(sorts, " "), rs)
	if len(args) > 0 {
		appL := fmt.Sprintf("(%s_L %s)", sf.smtName, strings.Join(args, " "))
		axiom += fmt.Sprintf("\n(assert (forall (%s) (! (= %s %s) :pattern (%s))))", strings.Join(decls, " "), app, appL, app)
	}
	// declarations first (body evaluation may have pulled in other spec functions, which are appended before us)
	g.specDecl = append([]string{decl, declL}, g.specDecl...)
	g.specDecl = append(g.specDecl, axiom)
}

func (g *Gen) specSort(t types.Type) string {
	if isSpecSeqType(t) {
		return "SSeq"
	}
	if isSpecMapType(t) {
		return "SMap"
	}
	return g.sortOf(t)
}

// specBlock translates a statement list that ends in a return on every path into a term.
func (e *evalEnv) specBlock(stmts []ast.Stmt, rt types.Type) string {
	if len(stmts) == 0 {
		e.fail(nil, "specification function: missing return")
	}
	s := stmts[0]
	rest := stmts[1:]
	switch s := s.(type) {
	case *ast.ReturnStmt:
		if len(s.Results) != 1 {
			e.fail(s, "specification functions return exactly one value")
		}
		v := e.value(e.eval(s.Results[0]))
		return e.coerce(v, rt)
	case *ast.AssignStmt:
		if len(s.Lhs) != 1 || len(s.Rhs) != 1 {
			e.fail(s, "only single assignments in specification functions")
		}
		id, ok := s.Lhs[0].(*ast.Ident)
		if !ok {
			e.fail(s, "assignment target must be a name")
		}
		v := e.value(e.eval(s.Rhs[0]))
		if s.Tok == token.ASSIGN {
			if old, ok := e.bound[id.Name]; ok && v.typ == nil {
				v.typ = old.typ
			}
		}
		if v.typ == nil {
			v.typ = tInt
		}
		c := e.child()
		ln := e.g.fresh("l_" + id.Name)
		c.bound[id.Name] = tv{term: ln, typ: v.typ, spec: v.spec}
		return fmt.Sprintf("(let ((%s %s)) %s)", ln, v.term, c.specBlock(rest, rt))
	case *ast.DeclStmt:
		gd := s.Decl.(*ast.GenDecl)
		c := e.child()
		var lets []string
		for _, sp := range gd.Specs {
			vs := sp.(*ast.ValueSpec)
			for i, n := range vs.Names {
				var v tv
				if i < len(vs.Values) {
					v = e.value(e.eval(vs.Values[i]))
					if vs.Type != nil {
						v.typ = e.evalType(vs.Type)
					}
				} else {
					t := e.evalType(vs.Type)
					v = tv{term: e.g.zero(t), typ: t}
				}
				if v.typ == nil {
					v.typ = tInt
				}
				ln := e.g.fresh("l_" + n.Name)
				c.bound[n.Name] = tv{term: ln, typ: v.typ, spec: v.spec}
				lets = append(lets, fmt.Sprintf("(%s %s)", ln, v.term))
			}
		}
		return fmt.Sprintf("(let (%s) %s)", strings.Join(lets, " "), c.specBlock(rest, rt))
	case *ast.IfStmt:
		if s.Init != nil {
			e.fail(s, "if with init statement is not supported in specification functions")
		}
		cond := e.evalBool(s.Cond)
		thenStmts := append(append([]ast.Stmt{}, s.Body.List...), rest...)
		var elseStmts []ast.Stmt
		switch el := s.Else.(type) {
		case nil:
			elseStmts = rest
		case *ast.BlockStmt:
			elseStmts = append(append([]ast.Stmt{}, el.List...), rest...)
		case *ast.IfStmt:
			elseStmts = append([]ast.Stmt{el}, rest...)
		}
		return fmt.Sprintf("(ite %s %s %s)", cond, e.child().specBlock(thenStmts, rt), e.child().specBlock(elseStmts, rt))
	case *ast.BlockStmt:
		return e.specBlock(append(append([]ast.Stmt{}, s.List...), rest...), rt)
	case *ast.ExprStmt:
		// ghost calls (lemma hints) are ignored in spec bodies
		return e.specBlock(rest, rt)
	}
	e.fail(s, "unsupported statement %T in specification function", s)
	return ""
}

func (e *evalEnv) coerce(v tv, t types.Type) string {
	if isSpecSeqType(t) && !v.spec {
		if v.term == "nil" {
			return "qempty"
		}
		return e.toSpec(v, nil).term
	}
	if v.term == "nil" {
		return e.g.zero(t)
	}
	return v.term
}
