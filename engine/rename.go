package main

import (
	"fmt"
	"go/ast"
	"os"
	"time"
	"regexp"
	"sort"
	"strings"

	"golang.org/x/tools/go/ssa"
)

// Renamed locals. Loop invariants, intermediate assertions and their anchors name local variables of the function; a
// maintainer who renames one has not changed what the function does. When a contract does not apply because a name is
// unknown (or an anchor line is gone), the engine looks for a renaming of vanished names to local variables the contract
// does not mention under which every clause resolves and every anchor that mentions a renamed variable is found again,
// and verifies the function with the contract renamed accordingly. This cannot make a wrong function pass: the renamed
// clauses are proof obligations like the original ones (an invariant still has to hold initially and be preserved, an
// assertion still has to hold where it stands) and postconditions are not touched.

var unresolvedRe = regexp.MustCompile(`unresolved name "([A-Za-z_][A-Za-z0-9_]*)"`)

// substIdent replaces the identifier old by new in a contract text (not after a '.', not inside string literals).
func substIdent(text, old, new string) string {
	var sb strings.Builder
	i := 0
	inStr := byte(0)
	lastNonSpace := byte(0)
	for i < len(text) {
		c := text[i]
		if inStr != 0 {
			sb.WriteByte(c)
			if c == inStr {
				inStr = 0
			}
			i++
			continue
		}
		if c == '"' || c == '`' {
			inStr = c
			sb.WriteByte(c)
			lastNonSpace = c
			i++
			continue
		}
		if c == '_' || (c >= 'a' && c <= 'z') || (c >= 'A' && c <= 'Z') {
			j := i
			for j < len(text) && (text[j] == '_' || (text[j] >= 'a' && text[j] <= 'z') || (text[j] >= 'A' && text[j] <= 'Z') || (text[j] >= '0' && text[j] <= '9')) {
				j++
			}
			id := text[i:j]
			if id == old && lastNonSpace != '.' {
				sb.WriteString(new)
			} else {
				sb.WriteString(id)
			}
			lastNonSpace = text[j-1]
			i = j
			continue
		}
		sb.WriteByte(c)
		if c != ' ' && c != '\t' {
			lastNonSpace = c
		}
		i++
	}
	return sb.String()
}

func identsOf(text string) map[string]bool {
	out := map[string]bool{}
	for _, m := range regexp.MustCompile(`[A-Za-z_][A-Za-z0-9_]*`).FindAllString(text, -1) {
		out[m] = true
	}
	return out
}

func renameClause(cl *Clause, m map[string]string) (*Clause, error) {
	if cl == nil {
		return nil, nil
	}
	c := &Clause{Label: cl.Label, Text: cl.Text, Where: cl.Where, Splits: append([]string{}, cl.Splits...)}
	for o, n := range m {
		c.Text = substIdent(c.Text, o, n)
		for i := range c.Splits {
			c.Splits[i] = substIdent(c.Splits[i], o, n)
		}
	}
	if err := c.parse(); err != nil {
		return nil, err
	}
	return c, nil
}

// renameLocals: the contract with the local-variable-bearing clauses (loop clauses, cuts and their anchors, call-site
// obligations, lemma uses) renamed; requires / ensures / modifies are shared with the original.
func renameLocals(ct *Contract, m map[string]string) (*Contract, error) {
	c2 := *ct
	var err error
	rn := func(cl *Clause) *Clause {
		if err != nil {
			return cl
		}
		var c *Clause
		c, err = renameClause(cl, m)
		return c
	}
	rnl := func(cs []*Clause) []*Clause {
		var out []*Clause
		for _, cl := range cs {
			out = append(out, rn(cl))
		}
		return out
	}
	c2.Loops = map[int]*LoopSpec{}
	for k, ls := range ct.Loops {
		c2.Loops[k] = &LoopSpec{Invariants: rnl(ls.Invariants), Decreases: rnl(ls.Decreases), Lets: rnl(ls.Lets)}
	}
	c2.Cuts = nil
	for _, cut := range ct.Cuts {
		n := *cut
		for o, nw := range m {
			n.Anchor = substIdent(n.Anchor, o, nw)
		}
		n.Cl = rn(cut.Cl)
		c2.Cuts = append(c2.Cuts, &n)
	}
	c2.CallSites = nil
	for _, cs := range ct.CallSites {
		c2.CallSites = append(c2.CallSites, &CallSite{Fn: cs.Fn, Cl: rn(cs.Cl)})
	}
	c2.Uses = rnl(ct.Uses)
	return &c2, err
}

// localNames: the variables declared in the body of fn (source names)
func localNames(fn *ssa.Function) []string {
	seen := map[string]bool{}
	if syn := fn.Syntax(); syn != nil {
		ast.Inspect(syn, func(n ast.Node) bool {
			switch x := n.(type) {
			case *ast.FuncLit:
				if ast.Node(x) != syn {
					return false // variables of nested closures are not locals of this function
				}
			case *ast.AssignStmt:
				if x.Tok.String() == ":=" {
					for _, l := range x.Lhs {
						if id, ok := l.(*ast.Ident); ok && id.Name != "_" {
							seen[id.Name] = true
						}
					}
				}
			case *ast.ValueSpec:
				for _, id := range x.Names {
					if id.Name != "_" {
						seen[id.Name] = true
					}
				}
			case *ast.RangeStmt:
				if x.Tok.String() == ":=" {
					for _, e := range []ast.Expr{x.Key, x.Value} {
						if id, ok := e.(*ast.Ident); ok && id.Name != "_" {
							seen[id.Name] = true
						}
					}
				}
			}
			return true
		})
	}
	var out []string
	for n := range seen {
		out = append(out, n)
	}
	sort.Strings(out)
	return out
}

// contractLocalText: all the text of the clauses that may name locals (for "which locals does the contract mention")
func contractLocalText(ct *Contract) string {
	var sb strings.Builder
	add := func(cs []*Clause) {
		for _, c := range cs {
			if c != nil {
				sb.WriteString(c.Text + "\n")
			}
		}
	}
	for _, ls := range ct.Loops {
		add(ls.Invariants)
		add(ls.Decreases)
		add(ls.Lets)
	}
	for _, cut := range ct.Cuts {
		sb.WriteString(cut.Anchor + "\n")
		if cut.Cl != nil {
			sb.WriteString(cut.Cl.Text + "\n")
		}
	}
	for _, cs := range ct.CallSites {
		sb.WriteString(cs.Cl.Text + "\n")
	}
	add(ct.Uses)
	add(ct.Ensures)
	add(ct.Requires)
	add(ct.Lets)
	return sb.String()
}

// sourceLinesOf: the (normalised) source lines of the function's body
func (eng *Engine) sourceLinesOf(fn *ssa.Function) map[string]bool {
	out := map[string]bool{}
	syn := fn.Syntax()
	if syn == nil {
		return out
	}
	p0 := eng.prog.Fset.Position(syn.Pos())
	p1 := eng.prog.Fset.Position(syn.End())
	for ln := p0.Line; ln <= p1.Line; ln++ {
		q := p0
		q.Line = ln
		if l := eng.sourceLine(q); l != "" {
			out[l] = true
		}
	}
	return out
}

func anchorText(a string) string {
	if i := strings.LastIndex(a, "#"); i > 0 {
		a = strings.TrimSpace(a[:i])
	}
	if len(a) > 70 {
		a = a[:70]
	}
	return a
}

// inferRenaming: see the comment at the top of this file. failed is the result of verifying fn with its contract as
// written (a contract error, or cuts whose anchors are gone); the result is the verification under an inferred renaming,
// or nil if there is none.
func (eng *Engine) inferRenaming(fn *ssa.Function, modes Modes, spec map[string]*ssa.Function, ct *Contract, firstErr string) *FnResult {
	lines := eng.sourceLinesOf(fn)
	locals := localNames(fn)
	isLocal := map[string]bool{}
	for _, l := range locals {
		isLocal[l] = true
	}
	for _, p := range fn.Params {
		isLocal[p.Name()] = true
	}
	for _, fv := range fn.FreeVars {
		isLocal[fv.Name()] = true
	}
	mentioned := identsOf(contractLocalText(ct))
	var cands []string
	for _, l := range locals {
		if !mentioned[l] {
			cands = append(cands, l)
		}
	}
	// a renamed parameter: the one parameter the contract does not mention (only if there is exactly one, so that the
	// meaning of the pre- and postconditions cannot be changed by the choice)
	paramCand := ""
	{
		var un []string
		for _, p := range fn.Params {
			if !mentioned[p.Name()] && p.Name() != "" && p.Name() != "_" {
				un = append(un, p.Name())
			}
		}
		if len(un) == 1 {
			paramCand = un[0]
			cands = append(cands, paramCand)
		}
	}
	mapping := map[string]string{}
	used := map[string]bool{}
	// 1. anchors that are gone: a vanished identifier in the anchor, replaced by an unmentioned local, gives a line of the function
	for _, cut := range ct.Cuts {
		a := anchorText(cut.Anchor)
		if lines[a] || strings.HasPrefix(cut.Anchor, "call:") || cut.Anchor == "go:" || cut.Anchor == "loopend:" {
			continue
		}
		for id := range identsOf(a) {
			if isLocal[id] || mapping[id] != "" {
				continue
			}
			var hit []string
			for _, c := range cands {
				if used[c] {
					continue
				}
				if lines[anchorText(substIdent(cut.Anchor, id, c))] {
					hit = append(hit, c)
				}
			}
			if len(hit) == 1 {
				mapping[id] = hit[0]
				used[hit[0]] = true
			}
		}
	}
	try := func(m map[string]string) *FnResult {
		c2, err := renameLocals(ct, m)
		if err != nil {
			return nil
		}
		for _, to := range m {
			if to == paramCand && paramCand != "" {
				// a parameter: the pre- and postconditions speak of it too, and callers use them
				if c2, err = renameInterface(c2, m); err != nil {
					return nil
				}
			}
		}
		r := eng.verifyFunctionWith(fn, modes, spec, c2)
		if r != nil && r.Err == "" {
			for _, to := range m {
				if to == paramCand && paramCand != "" {
					if eng.ctOverride == nil {
						eng.ctOverride = map[string]*Contract{}
					}
					eng.ctOverride[shortFn(fn)] = c2
				}
			}
		}
		return r
	}
	// 1b. anchors that are still gone: the one line of the function that resembles the anchor (statement split, merged
	// or otherwise reshaped) takes its place
	{
		fz := map[string]string{}
		for _, cut := range ct.Cuts {
			a := cut.Anchor
			for o, n := range mapping {
				a = substIdent(a, o, n)
			}
			if strings.HasPrefix(a, "call:") || a == "go:" || a == "loopend:" || lines[anchorText(a)] {
				continue
			}
			if !cut.Claim {
				// a proof step whose statement is gone is skipped (its postconditions must be proved without it); putting
				// it on a line that merely looks similar would turn a harmless edit into a failed assertion
				continue
			}
			if best := fuzzyLine(anchorText(a), lines); best != "" {
				fz[cut.Anchor] = best
			}
		}
		if len(fz) > 0 {
			c2 := *ct
			c2.Cuts = nil
			for _, cut := range ct.Cuts {
				n := *cut
				if b, ok := fz[cut.Anchor]; ok {
					n.Anchor = b
					n.AnchorWas = cut.Anchor
				}
				c2.Cuts = append(c2.Cuts, &n)
			}
			ct = &c2
			if len(mapping) == 0 {
				r := eng.verifyFunctionWith(fn, modes, spec, ct)
				if r != nil && r.Err == "" {
					r.Renamed = fmt.Sprintf("anchors re-placed on resembling lines: %d", len(fz))
					return r
				}
				if r != nil {
					firstErr = r.Err
				}
			}
		}
	}
	if len(cands) == 0 && len(mapping) == 0 {
		return nil
	}
	errNow := firstErr
	if len(mapping) > 0 {
		r := try(mapping)
		if r == nil {
			return nil
		}
		if r.Err == "" {
			r.Renamed = fmt.Sprint(mapping)
			return r
		}
		errNow = r.Err
	}
	// 2. names that do not resolve: try the unmentioned locals in turn (at most three names)
	for round := 0; round < 3; round++ {
		mm := unresolvedRe.FindStringSubmatch(errNow)
		if mm == nil || isLocal[mm[1]] || mapping[mm[1]] != "" {
			return nil
		}
		name := mm[1]
		var ok *FnResult
		var best *FnResult
		bestFail := 0
		for _, c := range cands {
			if used[c] {
				continue
			}
			m2 := map[string]string{}
			for k, v := range mapping {
				m2[k] = v
			}
			m2[name] = c
			// every anchor that mentions the renamed variable must be found again
			good := true
			for _, cut := range ct.Cuts {
				if identsOf(cut.Anchor)[name] && !strings.HasPrefix(cut.Anchor, "call:") {
					a := cut.Anchor
					for o, n := range m2 {
						a = substIdent(a, o, n)
					}
					if !lines[anchorText(a)] {
						good = false
					}
				}
			}
			if !good {
				continue
			}
			r := try(m2)
			if r == nil {
				continue
			}
			if r.Err == "" {
				r.Renamed = fmt.Sprint(m2)
				// several unmentioned locals may make the contract resolve (an error variable resolves almost anywhere): the
				// renaming under which the fewest obligations fail is the one meant; the first without any failure wins
				nf := eng.countFailures(r)
				if nf == 0 {
					return r
				}
				if best == nil || nf < bestFail {
					best, bestFail = r, nf
				}
				continue
			}
			if next := unresolvedRe.FindStringSubmatch(r.Err); next != nil && next[1] != name && ok == nil {
				// this candidate resolved the name; another one is still missing
				mapping[name] = c
				used[c] = true
				errNow = r.Err
				ok = r
				break
			}
		}
		if best != nil {
			return best
		}
		if ok == nil {
			return nil
		}
	}
	return nil
}

// countFailures: how many obligations of r do not discharge (a quick attempt each; used to choose between renamings)
func (eng *Engine) countFailures(r *FnResult) int {
	if r == nil || r.Gen == nil {
		return 1 << 30
	}
	dir, err := os.MkdirTemp("", "govc-rename-")
	if err != nil {
		return 1 << 30
	}
	defer os.RemoveAll(dir)
	n := 0
	for _, res := range eng.dischargeAll(r.Gen, dir, 5*time.Second, 16) {
		if res != nil && !res.Obl.probe && res.Status != "proved" {
			n++
		}
	}
	return n
}

var whereRe = regexp.MustCompile(`([A-Za-z0-9_./-]+\.go:[0-9]+): unresolved name`)

// clauseOwner: the function whose contract contains the clause a contract error points at
func (eng *Engine) clauseOwners(errText string) []*ssa.Function {
	m := whereRe.FindStringSubmatch(errText)
	if m == nil {
		return nil
	}
	var out []*ssa.Function
	where := m[1]
	has := func(cs []*Clause) bool {
		for _, c := range cs {
			if c != nil && strings.HasSuffix(c.Where, where) {
				return true
			}
		}
		return false
	}
	for _, key := range eng.sortedContractKeys() {
		ct := eng.contracts[key]
		found := false
		for _, ls := range ct.Loops {
			found = found || has(ls.Invariants) || has(ls.Decreases) || has(ls.Lets)
		}
		for _, cut := range ct.Cuts {
			found = found || has([]*Clause{cut.Cl})
		}
		found = found || has(ct.Uses) || has(ct.Requires) || has(ct.Ensures) || has(ct.Lets) || has(ct.Modifies) || has(ct.Decreases)
		if found {
			if fn := eng.fnByKey[key]; fn != nil {
				out = append(out, fn) // (several packages may have a contract file of the same name)
			}
		}
	}
	return out
}

// renameInterface: requires / ensures / modifies / lets / decreases of the contract renamed (a renamed parameter)
func renameInterface(ct *Contract, m map[string]string) (*Contract, error) {
	c2 := *ct
	var err error
	rnl := func(cs []*Clause) []*Clause {
		var out []*Clause
		for _, cl := range cs {
			if err != nil {
				out = append(out, cl)
				continue
			}
			var c *Clause
			c, err = renameClause(cl, m)
			out = append(out, c)
		}
		return out
	}
	c2.Requires = rnl(ct.Requires)
	c2.Ensures = rnl(ct.Ensures)
	c2.Modifies = rnl(ct.Modifies)
	c2.Decreases = rnl(ct.Decreases)
	lets := rnl(ct.Lets)
	for i := range lets {
		if lets[i] != nil {
			lets[i].Label = ct.Lets[i].Label
		}
	}
	c2.Lets = lets
	if ct.NoAllocWhen != nil && err == nil {
		c2.NoAllocWhen, err = renameClause(ct.NoAllocWhen, m)
	}
	var rt []string
	for _, r := range ct.Retains {
		if n, ok := m[r]; ok {
			r = n
		}
		rt = append(rt, r)
	}
	c2.Retains = rt
	return &c2, err
}

var tokenRe = regexp.MustCompile(`[A-Za-z_][A-Za-z0-9_]*|[0-9]+|[^\sA-Za-z0-9_]`)

// fuzzyLine: the line among lines that resembles text (token-wise longest common subsequence, at least 60% and clearly
// better than the runner-up), or ""
func fuzzyLine(text string, lines map[string]bool) string {
	ta := tokenRe.FindAllString(text, -1)
	if len(ta) < 3 {
		return ""
	}
	best, second := 0.0, 0.0
	bestLine := ""
	var keys []string
	for l := range lines {
		keys = append(keys, l)
	}
	sort.Strings(keys)
	for _, l := range keys {
		tb := tokenRe.FindAllString(l, -1)
		if len(tb) == 0 {
			continue
		}
		// LCS
		prev := make([]int, len(tb)+1)
		for i := 1; i <= len(ta); i++ {
			cur := make([]int, len(tb)+1)
			for j := 1; j <= len(tb); j++ {
				if ta[i-1] == tb[j-1] {
					cur[j] = prev[j-1] + 1
				} else if prev[j] >= cur[j-1] {
					cur[j] = prev[j]
				} else {
					cur[j] = cur[j-1]
				}
			}
			prev = cur
		}
		sim := 2 * float64(prev[len(tb)]) / float64(len(ta)+len(tb))
		if sim > best {
			second = best
			best = sim
			bestLine = l
		} else if sim > second {
			second = sim
		}
	}
	if best >= 0.6 && best-second >= 0.1 {
		return bestLine
	}
	return ""
}
