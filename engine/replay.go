package main

import (
	"fmt"
	"os"
	"path/filepath"
	"strings"
)

// makeReplay writes the replay file of a violation: the failed obligation, the solvers' output, a candidate
// counterexample (quantified assertions dropped) and, where a harness exists, the result of running it on the real code.
func (eng *Engine) makeReplay(id string, cfg *PropConfig, v *violation, dir string) {
	r := v.res
	name := fmt.Sprintf("%s_%s.replay.txt", id, sanitize(r.Obl.name))
	if len(name) > 180 {
		name = name[:170] + ".replay.txt"
	}
	path := filepath.Join(dir, name)
	var sb strings.Builder
	fmt.Fprintf(&sb, "property: %s\nfailed obligation: %s\nkind: %s\nsource: %s:%d\ngoal: %s\nsolver attempts: %s\nstatus: %s\n", id, r.Obl.name, r.Obl.kind, r.Obl.pos.Filename, r.Obl.pos.Line, r.Obl.text, strings.Join(r.Attempts, " "), r.Status)
	if v.demoOut != "" {
		fmt.Fprintf(&sb, "\nthe demonstration of a repaired defect fails again on this tree:\n%s\n", v.demoOut)
		os.WriteFile(path, []byte(sb.String()), 0o644)
		v.replay = path
		return
	}
	model := ""
	if r.gen != nil {
		model = eng.candidateModel(r.gen, r.Obl, r.dir, r.idx)
	}
	if model != "" {
		fmt.Fprintf(&sb, "\na candidate counterexample exists (quantified assertions dropped; uninterpreted spec functions are unconstrained in it); parameter headers of one such model:\n%s\n", summarizeModel(model, r.gen))
	} else {
		fmt.Fprintf(&sb, "\nno candidate model: the solvers answered %s\n", r.Answer)
	}
	confirmed, out := eng.tryReplay(id, cfg, v, model)
	if out != "" {
		fmt.Fprintf(&sb, "\nreplay on the real code:\n%s\n", out)
	}
	v.confirmed = confirmed
	if !confirmed {
		fmt.Fprintf(&sb, "\nno-failing-input-found: the obligation is reported because it is not discharged on this tree\n")
	}
	os.WriteFile(path, []byte(sb.String()), 0o644)
	v.replay = path
}

func summarizeModel(model string, g *Gen) string {
	// keep only the parameter definitions and small scalars
	var out []string
	lines := strings.Split(model, "\n")
	for i := 0; i < len(lines); i++ {
		l := lines[i]
		if strings.Contains(l, "(define-fun p_") {
			s := strings.TrimSpace(l)
			for j := i + 1; j < len(lines) && j < i+6 && !strings.Contains(lines[j], "(define-fun"); j++ {
				s += " " + strings.TrimSpace(lines[j])
			}
			out = append(out, s)
		}
	}
	if len(out) > 40 {
		out = out[:40]
	}
	return strings.Join(out, "\n")
}

// tryReplay runs the property's replay harness (if any) against the real code. Implemented in harness.go.
func (eng *Engine) tryReplay(id string, cfg *PropConfig, v *violation, model string) (bool, string) {
	return eng.runHarness(id, cfg, v, model)
}
