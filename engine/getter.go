package main

import (
	"fmt"
	"go/token"
	"go/types"
	"strings"

	"golang.org/x/tools/go/ssa"
)

// Trivial getters: methods whose body is one block that returns a constant or a field of the receiver (Code(), Type(),
// IsRelay(), ...). Their value is a closed term over the receiver and the heap, so a call through an interface can be
// resolved by closed-world case analysis on the dynamic type (assumption A4) without any annotation, in the code under
// verification and - for calls x.M() written in contracts - in contract expressions, also under quantifiers.

// getterTerm evaluates the body of fn for the receiver term recv in state st; ok == false if fn is not a trivial getter.
func (eng *Engine) getterTerm(g *Gen, fn *ssa.Function, args []string, st *State, depth int) (string, bool) {
	if fn == nil || len(fn.Blocks) != 1 || depth > 3 || len(fn.Params) != len(args) {
		return "", false
	}
	env := map[ssa.Value]string{}
	for i, p := range fn.Params {
		env[p] = args[i]
	}
	val := func(v ssa.Value) (string, bool) {
		switch x := v.(type) {
		case *ssa.Const:
			return g.constTerm(x), true
		}
		t, ok := env[v]
		return t, ok
	}
	for _, instr := range fn.Blocks[0].Instrs {
		switch in := instr.(type) {
		case *ssa.DebugRef:
		case *ssa.MakeInterface:
			x, ok := val(in.X)
			if !ok {
				return "", false
			}
			tag := g.tag(in.X.Type())
			switch g.sortOf(in.X.Type()) {
			case "Int":
				env[in] = fmt.Sprintf("(mkIface %d (bInt %s))", tag, x)
			case "Bool":
				env[in] = fmt.Sprintf("(mkIface %d (bBool %s))", tag, x)
			case "BSeq":
				env[in] = fmt.Sprintf("(mkIface %d (bSeq %s))", tag, x)
			case "Ptr":
				env[in] = fmt.Sprintf("(mkIface %d (bPtr %s))", tag, x)
			case "Iface":
				env[in] = x
			default:
				return "", false
			}
		case *ssa.ChangeType:
			x, ok := val(in.X)
			if !ok {
				return "", false
			}
			env[in] = x
		case *ssa.ChangeInterface:
			x, ok := val(in.X)
			if !ok {
				return "", false
			}
			env[in] = x
		case *ssa.FieldAddr:
			p, ok := val(in.X)
			if !ok {
				return "", false
			}
			stt := in.X.Type().Underlying().(*types.Pointer).Elem().Underlying().(*types.Struct)
			env[in] = fmt.Sprintf("(mkPtr (pref %s) %s)", p, add(fmt.Sprintf("(poff %s)", p), fmt.Sprint(fieldSlot(stt, in.Field))))
		case *ssa.Field:
			x, ok := val(in.X)
			if !ok {
				return "", false
			}
			env[in] = fmt.Sprintf("(%s_f%d %s)", g.sortOf(in.X.Type()), in.Field, x)
		case *ssa.UnOp:
			if in.Op != token.MUL {
				return "", false
			}
			p, ok := val(in.X)
			if !ok {
				return "", false
			}
			et := in.X.Type().Underlying().(*types.Pointer).Elem()
			if slots(et) != 1 || kindOf(et) == "" {
				// a whole struct loaded through the receiver pointer (wrapper of a value-receiver method)
				if _, isStruct := et.Underlying().(*types.Struct); isStruct {
					a := &Act{g: g}
					env[in] = a.load(st, et, fmt.Sprintf("(pref %s)", p), fmt.Sprintf("(poff %s)", p))
					continue
				}
				return "", false
			}
			env[in] = sel(st.H[kindOf(et)], fmt.Sprintf("(pref %s)", p), fmt.Sprintf("(poff %s)", p))
		case *ssa.Call:
			c := in.Common()
			if bi, ok := c.Value.(*ssa.Builtin); ok && bi.Name() == "ssa:wrapnilchk" {
				x, ok := val(c.Args[0])
				if !ok {
					return "", false
				}
				env[in] = x
				continue
			}
			callee, ok := c.Value.(*ssa.Function)
			if !ok || c.IsInvoke() {
				return "", false
			}
			var as []string
			for _, x := range c.Args {
				t, ok := val(x)
				if !ok {
					return "", false
				}
				as = append(as, t)
			}
			t, ok := eng.getterTerm(g, callee, as, st, depth+1)
			if !ok {
				return "", false
			}
			env[in] = t
		case *ssa.Return:
			if len(in.Results) != 1 {
				return "", false
			}
			return val(in.Results[0])
		default:
			return "", false
		}
	}
	return "", false
}

// ifaceGetter: the value of recv.M() for an interface value recv when every implementation of M in the program is a
// trivial getter: a case analysis on the dynamic type. The last alternative is an uninterpreted function of the value
// (dynamic types outside the program).
func (eng *Engine) ifaceGetter(g *Gen, a *Act, it types.Type, m *types.Func, recv string, st *State) (term string, tags []string, ok bool) {
	impls := eng.implementations(it, m)
	if len(impls) == 0 || len(impls) > 160 {
		return "", nil, false
	}
	sig := m.Type().(*types.Signature)
	if sig.Params().Len() != 0 || sig.Results().Len() != 1 {
		return "", nil, false
	}
	rs := g.sortOf(sig.Results().At(0).Type())
	fname := "dyn_" + sanitize(shortName(it.String())+"_"+m.Name())
	if !g.specUsed["decl:"+fname] {
		g.specUsed["decl:"+fname] = true
		g.pre = append(g.pre, fmt.Sprintf("(declare-fun %s (Iface) %s)", fname, rs))
	}
	term = fmt.Sprintf("(%s %s)", fname, recv)
	if !g.specUsed["axiom:entryF"] && g.entry != nil {
		g.specUsed["axiom:entryF"] = true
		// Go memory safety for the interface values stored in the entry heap: boxed references are allocated, and the
		// dynamic type determines the representation of the box. Stated when a getter is first used (it is what getter
		// terms under quantifiers need), not in every proof: it is one more quantified axiom over heap reads.
		st0 := g.entry
		for _, k := range []string{"F", "MF"} {
			g.assume(fmt.Sprintf("(forall ((r Int) (o Int)) (! (let ((v (select (select %s r) o))) (and (=> (is-bPtr (ibox v)) (< (pref (ubPtr (ibox v))) %s)) (=> (is-bSlice (ibox v)) (< (sref (ubSlice (ibox v))) %s)) (=> (= (tagShape (itag v)) 5) (and (is-bPtr (ibox v)) (> (pref (ubPtr (ibox v))) 0))) (=> (= (tagShape (itag v)) 4) (is-bSlice (ibox v))) (=> (= (tagShape (itag v)) 1) (is-bInt (ibox v))) (=> (= (tagShape (itag v)) 6) (is-bPtr (ibox v))))) :pattern ((select (select %s r) o))))", st0.H[k], st0.Next, st0.Next, st0.H[k]))
		}
	}
	// constant-returning implementations go into a table indexed by the type tag (ground facts), the others into a case
	// analysis: x.M() = (ite (isconst (itag x)) (const (itag x)) <cases>)
	gc, gk := "gc_"+fname, "gk_"+fname
	declared := g.specUsed["decl:"+gc]
	if !declared {
		g.specUsed["decl:"+gc] = true
		g.pre = append(g.pre, fmt.Sprintf("(declare-fun %s (Int) %s)", gc, rs), fmt.Sprintf("(declare-fun %s (Int) Bool)", gk))
	}
	const ph = "RECV_PLACEHOLDER"
	for i := len(impls) - 1; i >= 0; i-- {
		im := impls[i]
		if k := "shape:" + fmt.Sprint(g.tag(im.typ)); !g.specUsed[k] {
			g.specUsed[k] = true
			sh := 0
			switch g.sortOf(im.typ) {
			case "Int":
				sh = 1
			case "Slice":
				sh = 4
			case "Ptr":
				sh = 6
			case "Bool", "BSeq", "Iface":
				sh = 0
			default:
				sh = 5
			}
			if sh != 0 {
				g.specDecl = append(g.specDecl, fmt.Sprintf("(assert (= (tagShape %d) %d))", g.tag(im.typ), sh))
			}
		}
		cond := fmt.Sprintf("(= (itag %s) %d)", recv, g.tag(im.typ))
		tags = append(tags, cond)
		// constant?
		rvp := a.unboxIface(im.typ, ph, st)
		tp, tok := eng.getterTerm(g, im.fn, []string{rvp}, st, 0)
		if !tok {
			return "", nil, false
		}
		if !strings.Contains(tp, ph) {
			if k := fmt.Sprintf("gcfact:%s:%d", gc, g.tag(im.typ)); !g.specUsed[k] {
				g.specUsed[k] = true
				g.specDecl = append(g.specDecl, fmt.Sprintf("(assert (and (%s %d) (= (%s %d) %s)))", gk, g.tag(im.typ), gc, g.tag(im.typ), tp))
			}
			continue
		}
		if k := fmt.Sprintf("gcfact:%s:%d", gc, g.tag(im.typ)); !g.specUsed[k] {
			g.specUsed[k] = true
			g.specDecl = append(g.specDecl, fmt.Sprintf("(assert (not (%s %d)))", gk, g.tag(im.typ)))
		}
		rv := a.unboxIface(im.typ, recv, st)
		t, tok := eng.getterTerm(g, im.fn, []string{rv}, st, 0)
		if !tok {
			return "", nil, false
		}
		term = fmt.Sprintf("(ite %s %s %s)", cond, t, term)
	}
	term = fmt.Sprintf("(ite (%s (itag %s)) (%s (itag %s)) %s)", gk, recv, gc, recv, term)
	return term, tags, true
}

var _ = strings.Join
