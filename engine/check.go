package main

import (
	"os/exec"
	"encoding/json"
	"fmt"
	"os"
	"path/filepath"
	"regexp"
	"sort"
	"strconv"
	"strings"
	"time"

	"golang.org/x/tools/go/ssa"
)

type ReplaySpec struct {
	Harnesses map[string]string `json:"harnesses"` // function key (or prefix*) -> Go harness name in the package's verif file
}

type targetFn struct {
	fn    *ssa.Function
	modes Modes
	note  string
	spec  map[string]*ssa.Function
}

func (eng *Engine) resolveTargets(cfg *PropConfig) ([]targetFn, []string) {
	var out []targetFn
	var errs []string
	seen := map[*ssa.Function]int{}
	add := func(fn *ssa.Function, m Modes, note string) {
		if i, ok := seen[fn]; ok {
			o := &out[i]
			o.modes.Safety = o.modes.Safety || m.Safety
			o.modes.Post = o.modes.Post || m.Post
			o.modes.Frame = o.modes.Frame || m.Frame
			o.modes.Termination = o.modes.Termination || m.Termination
			o.modes.Probes = o.modes.Probes || m.Probes
			o.modes.NonNilParams = o.modes.NonNilParams || m.NonNilParams
			o.modes.ReadOnly = o.modes.ReadOnly || m.ReadOnly
			o.modes.NoAlias = o.modes.NoAlias || m.NoAlias
			return
		}
		seen[fn] = len(out)
		out = append(out, targetFn{fn, m, note, nil})
	}
	for _, t := range cfg.Targets {
		m := parseModes(t.Modes)
		switch {
		case t.Fn != "" && strings.HasPrefix(t.Fn, "re:"):
			re, err := regexp.Compile(t.Fn[3:])
			if err != nil {
				errs = append(errs, fmt.Sprintf("bad regexp %q: %v", t.Fn, err))
				continue
			}
			var ex *regexp.Regexp
			if t.Exclude != "" {
				ex = regexp.MustCompile(t.Exclude)
			}
			n := 0
			for _, k := range eng.sortedKeys() {
				fn := eng.fnByKey[k]
				if re.MatchString(k) && len(fn.Blocks) > 0 && (eng.inRepo(fn) || t.Dep && (eng.inRepoOrUio(fn) || eng.contracts[k] != nil)) && (ex == nil || !ex.MatchString(k)) && (t.Ghost || !eng.isVerifFn(fn)) {
					add(fn, m, t.Note)
					n++
				}
			}
			if n == 0 {
				errs = append(errs, fmt.Sprintf("target %q matches no function", t.Fn))
			}
		case t.Fn != "":
			fn := eng.fnByKey[t.Fn]
			if fn == nil || len(fn.Blocks) == 0 {
				errs = append(errs, fmt.Sprintf("target function %q not found in the source tree", t.Fn))
				continue
			}
			if len(t.Specialize) > 0 {
				for pname, keys := range t.Specialize {
					for _, k := range keys {
						f := eng.fnByKey[k]
						if f == nil {
							errs = append(errs, fmt.Sprintf("specialization function %q not found", k))
							continue
						}
						out = append(out, targetFn{fn, m, t.Note, map[string]*ssa.Function{pname: f}})
					}
				}
				continue
			}
			add(fn, m, t.Note)
		case len(t.Sweep) > 0:
			var ex *regexp.Regexp
			if t.Exclude != "" {
				ex = regexp.MustCompile(t.Exclude)
			}
			var reach map[*ssa.Function]bool
			if len(t.Roots) > 0 {
				reach = eng.reachableFrom(t.Roots, &errs)
			}
			for _, k := range eng.sortedKeys() {
				fn := eng.fnByKey[k]
				if len(fn.Blocks) == 0 || !eng.inRepo(fn) || eng.isVerifFn(fn) || fn.Synthetic != "" || fn.Name() == "init" || strings.HasPrefix(fn.Name(), "init#") {
					continue
				}
				pk := eng.pkgNameOf(fn)
				okPkg := false
				for _, s := range t.Sweep {
					if pk == s {
						okPkg = true
					}
				}
				if !okPkg || (ex != nil && ex.MatchString(k)) {
					continue
				}
				if reach != nil && !reach[fn] {
					continue
				}
				add(fn, m, t.Note)
			}
		}
	}
	return out, errs
}

func (eng *Engine) sortedContractKeys() []string {
	if eng.ctKeys == nil {
		for k := range eng.contracts {
			eng.ctKeys = append(eng.ctKeys, k)
		}
		sort.Strings(eng.ctKeys)
	}
	return eng.ctKeys
}

func (eng *Engine) sortedKeys() []string {
	if eng.keys == nil {
		for k := range eng.fnByKey {
			eng.keys = append(eng.keys, k)
		}
		sort.Strings(eng.keys)
	}
	return eng.keys
}

func (eng *Engine) pkgNameOf(fn *ssa.Function) string {
	p := fn.Pkg
	for f := fn; p == nil && f.Parent() != nil; f = f.Parent() {
		p = f.Parent().Pkg
	}
	if p == nil {
		return ""
	}
	return p.Pkg.Name()
}

// isVerifFn: functions declared in verif_*.go files (spec functions, lemmas, ghost clients, replay harnesses)
func (eng *Engine) isVerifFn(fn *ssa.Function) bool {
	f := fn
	for f.Parent() != nil {
		f = f.Parent()
	}
	p := eng.prog.Fset.Position(f.Pos())
	return strings.HasPrefix(filepath.Base(p.Filename), "verif_")
}

func (eng *Engine) reachableFrom(roots []string, errs *[]string) map[*ssa.Function]bool {
	reach := map[*ssa.Function]bool{}
	var work []*ssa.Function
	for _, r := range roots {
		if strings.HasPrefix(r, "re:") {
			re := regexp.MustCompile(r[3:])
			for _, k := range eng.sortedKeys() {
				if re.MatchString(k) && eng.inRepo(eng.fnByKey[k]) {
					work = append(work, eng.fnByKey[k])
				}
			}
			continue
		}
		fn := eng.fnByKey[r]
		if fn == nil {
			*errs = append(*errs, fmt.Sprintf("sweep root %q not found", r))
			continue
		}
		work = append(work, fn)
	}
	for len(work) > 0 {
		fn := work[len(work)-1]
		work = work[:len(work)-1]
		if reach[fn] {
			continue
		}
		reach[fn] = true
		for _, b := range fn.Blocks {
			for _, in := range b.Instrs {
				var c *ssa.CallCommon
				switch x := in.(type) {
				case *ssa.Call:
					c = x.Common()
				case *ssa.Defer:
					c = x.Common()
				case *ssa.Go:
					c = x.Common()
				case *ssa.MakeClosure:
					work = append(work, x.Fn.(*ssa.Function))
				}
				if c == nil {
					continue
				}
				if c.IsInvoke() {
					for _, im := range eng.implementations(c.Value.Type(), c.Method) {
						if eng.inRepo(im.fn) {
							work = append(work, im.fn)
						}
					}
					continue
				}
				if f, ok := c.Value.(*ssa.Function); ok && eng.inRepo(f) {
					work = append(work, f)
				}
			}
		}
	}
	return reach
}

type violation struct {
	res    *OblResult
	replay string
	confirmed bool
	demoOut string // output of a failing finding demonstration (thorough tier)
}

func (eng *Engine) checkProperty(id, tier string, timeoutFlag, workers int, keep, verbose bool) int {
	t0 := time.Now()
	var cfg PropConfig
	if err := readJSON(filepath.Join(eng.verifDir, "props", id+".json"), &cfg); err != nil {
		fmt.Fprintln(os.Stderr, "ENGINE ERROR: cannot read property config:", err)
		return 2
	}
	var findings []Finding
	readJSON(filepath.Join(eng.verifDir, "known_findings.json"), &findings)
	var unclaimed []Unclaimed
	readJSON(filepath.Join(eng.verifDir, "unclaimed.json"), &unclaimed)
	seed := 0
	if s := os.Getenv("VERIF_SEED"); s != "" {
		seed, _ = strconv.Atoi(s)
	}
	to := cfg.TimeoutQuick
	if to == 0 {
		to = 25 // every claimed obligation discharges in a few seconds; the margin absorbs machine load
	}
	if tier == "thorough" {
		to = cfg.TimeoutThorough
		if to == 0 {
			to = 60
		}
	}
	if timeoutFlag > 0 {
		to = timeoutFlag
	}
	eng.crossCheck = tier == "thorough"
	eng.curPureDynamic = cfg.PureDynamic
	targets, terrs := eng.resolveTargets(&cfg)
	var vjobs []vjob
	for _, t := range targets {
		m := t.modes
		m.Probes = true
		vjobs = append(vjobs, vjob{t.fn, m, t.spec})
	}
	run := eng.runJobs(id+"-"+tier, vjobs, time.Duration(to)*time.Second, workers, keep, verbose)
	if verbose {
		run.print(false)
	}
	// classify
	var viols []*violation
	var knownHit []Finding
	var unclaimedHit []string
	var engineErrs []string
	var missingFns []string
	for _, te := range terrs {
		if strings.HasPrefix(te, "target function ") {
			// a function named by a contract target is gone from the source tree: its contract cannot be discharged
			missingFns = append(missingFns, te)
			continue
		}
		engineErrs = append(engineErrs, te)
	}
	nObl, nDis := 0, 0
	byKind := map[string]int{}
	byBackend := map[string]int{}
	var solverTime, maxTime float64
	type slowT struct {
		name string
		t    float64
	}
	var slow []slowT
	var contractViols []*violation
	for _, m := range missingFns {
		o := &Obl{name: strings.TrimSuffix(strings.TrimPrefix(m, "target function \""), "\" not found in the source tree") + ":contract-applies", kind: "contract-applies", text: m}
		o.fn = strings.TrimSuffix(o.name, ":contract-applies")
		contractViols = append(contractViols, &violation{res: &OblResult{Obl: o, Status: "failed", Solver: "none", Answer: m}})
	}
	for _, fr := range run.fnRes {
		if fr.Err != "" {
			if strings.HasPrefix(fr.Err, "contract error:") {
				// the contract no longer applies to the function's code (a name it mentions, a loop it annotates or the
				// function itself is gone): every obligation it generated on the unchanged tree is undischarged now. Reported
				// as the failed obligation <fn>:contract-applies (no counterexample exists for it).
				o := &Obl{name: fr.Fn + ":contract-applies", kind: "contract-applies", fn: fr.Fn, text: fr.Err}
				contractViols = append(contractViols, &violation{res: &OblResult{Obl: o, Status: "failed", Solver: "none", Answer: fr.Err}})
				continue
			}
			engineErrs = append(engineErrs, fmt.Sprintf("%s: %s", fr.Fn, fr.Err))
		}
	}
	var staleBudget map[string]int
	deadReturns := map[string]int{}
	liveReturns := map[string]int{}
	var deadList []string
	for _, r := range run.results {
		solverTime += r.Time
		if r.Time > maxTime {
			maxTime = r.Time
		}
		slow = append(slow, slowT{r.Obl.name, r.Time})
		if r.Obl.probe {
			if r.Status == "proved" {
				if strings.Contains(r.Obl.name, ":PROBE:return-reachable:") {
					// a single return that is dead under the stated assumptions (e.g. a nil check on a parameter assumed
					// non-nil) is not a vacuity of the function; it becomes one if no return at all is reachable
					deadReturns[r.Obl.fn]++
					deadList = append(deadList, r.Obl.name)
				} else {
					engineErrs = append(engineErrs, "vacuity: reachability probe is provable: "+r.Obl.name)
				}
			} else if strings.Contains(r.Obl.name, ":PROBE:return-reachable:") {
				liveReturns[r.Obl.fn]++
			}
			continue
		}
		isUnclaimed := false
		for _, u := range unclaimed {
			if u.Property == id && matchName(u.Obligation, r.Obl.name) {
				isUnclaimed = true
			}
		}
		if !isUnclaimed && r.Status != "proved" {
			// obligation names contain the source text of their statement: after a harmless edit of that text (a renamed
			// local) an unclaimed obligation comes back under another name. An entry of the list that matches no obligation
			// of this run stands for one failing obligation of the same function and kind.
			if staleBudget == nil {
				staleBudget = map[string]int{}
				for _, u := range unclaimed {
					if u.Property != id {
						continue
					}
					hit := false
					for _, r2 := range run.results {
						if matchName(u.Obligation, r2.Obl.name) {
							hit = true
							break
						}
					}
					if !hit {
						if parts := strings.SplitN(u.Obligation, ":", 3); len(parts) == 3 {
							staleBudget[parts[0]+":"+parts[1]]++
						}
					}
				}
			}
			key := r.Obl.fn + ":" + r.Obl.kind
			if staleBudget[key] > 0 {
				staleBudget[key]--
				isUnclaimed = true
			}
		}
		if isUnclaimed {
			unclaimedHit = append(unclaimedHit, fmt.Sprintf("%s (%s)", r.Obl.name, r.Status))
			continue
		}
		nObl++
		byKind[r.Obl.kind]++
		if r.Status == "proved" {
			nDis++
			byBackend[r.Solver]++
			continue
		}
		known := false
		for _, f := range findings {
			if f.Property == id && f.Status == "known" && matchName(f.Obligation, r.Obl.name) {
				known = true
				knownHit = append(knownHit, f)
			}
		}
		if known {
			nObl-- // counted separately
			byKind[r.Obl.kind]--
			continue
		}
		if r.Status == "error" {
			engineErrs = append(engineErrs, fmt.Sprintf("solver error on %s: %s", r.Obl.name, strings.Join(r.Attempts, " ")))
			continue
		}
		viols = append(viols, &violation{res: r})
	}
	viols = append(viols, contractViols...)
	nObl += len(contractViols)
	// thorough: the demonstration of every repaired defect of this property is run against the real code (it fails
	// while the defect exists, so it must pass now); a failure is reported as the violation finding-demo:<what>
	demosRun := 0
	if tier == "thorough" {
		doneDemo := map[string]bool{}
		for _, f := range findings {
			if f.Property != id || f.Status != "fixed" || f.Demo == "" || doneDemo[f.Demo] {
				continue
			}
			doneDemo[f.Demo] = true
			demosRun++
			ok, out := eng.runDemo(f)
			nObl++
			if ok {
				nDis++
				byBackend["go test (finding demonstration)"]++
				continue
			}
			o := &Obl{name: "finding-demo:" + f.Demo, kind: "finding-demo", text: f.What}
			viols = append(viols, &violation{res: &OblResult{Obl: o, Status: "failed", Solver: "go test", Answer: out}, confirmed: true, demoOut: out})
		}
	}

	if os.Getenv("VERIF_WRITE_HINTS") != "" {
		eng.writeHints(run.results)
	}
	if os.Getenv("VERIF_WRITE_UNCLAIMED") != "" {
		// maintenance mode: record every currently failing obligation of this property as unclaimed (reason to be edited)
		var rest []Unclaimed
		for _, u := range unclaimed {
			if u.Property != id {
				rest = append(rest, u)
			}
		}
		seenU := map[string]bool{}
		for _, u := range unclaimed {
			if u.Property == id {
				// keep entries that still match a failing obligation
				for _, r := range run.results {
					if !r.Obl.probe && r.Status != "proved" && matchName(u.Obligation, r.Obl.name) && !seenU[u.Obligation] {
						seenU[u.Obligation] = true
						rest = append(rest, u)
					}
				}
			}
		}
		for _, v := range viols {
			if !seenU[v.res.Obl.name] {
				seenU[v.res.Obl.name] = true
				rest = append(rest, Unclaimed{Property: id, Obligation: v.res.Obl.name, Reason: os.Getenv("VERIF_WRITE_UNCLAIMED")})
			}
		}
		b, _ := json.MarshalIndent(rest, "", " ")
		os.WriteFile(filepath.Join(eng.verifDir, "unclaimed.json"), b, 0o644)
		fmt.Printf("wrote %d unclaimed entries\n", len(rest))
	}
	for fn, n := range deadReturns {
		if n > 0 && liveReturns[fn] == 0 {
			engineErrs = append(engineErrs, fmt.Sprintf("vacuity: no return of %s is reachable under its assumptions", fn))
		}
	}
	sort.Strings(deadList)
	sort.Slice(slow, func(i, j int) bool { return slow[i].t > slow[j].t })
	if len(slow) > 10 {
		slow = slow[:10]
	}
	// replays
	replayDir := filepath.Join(eng.verifDir, "replays")
	os.MkdirAll(replayDir, 0o755)
	for i, v := range viols {
		// replays run `go test` on the real code: at most the first five violations of a run are replayed
		eng.replayBudget = i < 5
		eng.makeReplay(id, &cfg, v, replayDir)
	}
	// evidence
	var fnList []map[string]interface{}
	for _, fr := range run.fnRes {
		status := "verified"
		if fr.Err != "" {
			status = "out-of-reach: " + fr.Err
		}
		n := 0
		if fr.Gen != nil {
			for _, o := range fr.Gen.obls {
				if !o.probe {
					n++
				}
			}
		}
		var ms []string
		if fr.Modes.Safety {
			ms = append(ms, "safety")
		}
		if fr.Modes.Post {
			ms = append(ms, "post")
		}
		if fr.Modes.Frame {
			ms = append(ms, "frame")
		}
		if fr.Modes.Termination {
			ms = append(ms, "termination")
		}
		ent := map[string]interface{}{"function": fr.Fn, "status": status, "obligations": n, "modes": strings.Join(ms, ","), "has_contract": fr.Contract != nil}
		if fr.Gen != nil && fr.Gen.unsupported > 0 {
			ent["unmodelled_constructs_havoced"] = fr.Gen.unsupported
		}
		fnList = append(fnList, ent)
	}
	var samples []map[string]interface{}
	step := 1
	if len(run.results) > 8 {
		step = len(run.results) / 8
	}
	for i := 0; i < len(run.results) && len(samples) < 8; i += step {
		r := run.results[i]
		if r.Obl.probe {
			continue
		}
		samples = append(samples, map[string]interface{}{"obligation": r.Obl.name, "kind": r.Obl.kind, "at": fmt.Sprintf("%s:%d", shortFile(r.Obl.pos.Filename), r.Obl.pos.Line), "goal": r.Obl.text, "status": r.Status, "solver": r.Solver, "time_s": round2(r.Time)})
	}
	notesSet := map[string]bool{}
	for _, fr := range run.fnRes {
		if fr.Gen == nil {
			continue
		}
		for n := range fr.Gen.notes {
			if strings.HasPrefix(n, "HAVOC") || strings.HasPrefix(n, "UNSUPPORTED") || strings.HasPrefix(n, "havoc-result") || strings.HasPrefix(n, "UNINTERPRETED") {
				notesSet[n] = true
			}
		}
	}
	var notes []string
	for n := range notesSet {
		notes = append(notes, n)
	}
	sort.Strings(notes)
	if len(notes) > 200 {
		notes = append(notes[:200], fmt.Sprintf("... and %d more", len(notes)-200))
	}
	var trustedContracts []string
	for k, c := range eng.contracts {
		if c.Trusted {
			trustedContracts = append(trustedContracts, k)
		}
	}
	sort.Strings(trustedContracts)
	var slowNames []string
	for _, s := range slow {
		slowNames = append(slowNames, fmt.Sprintf("%s %.2fs", s.name, s.t))
	}
	var vlist []map[string]interface{}
	for _, v := range viols {
		vlist = append(vlist, map[string]interface{}{"obligation": v.res.Obl.name, "status": v.res.Status, "replay": v.replay, "confirmed_on_real_code": v.confirmed})
	}
	var klist []string
	seenK := map[string]bool{}
	for _, f := range knownHit {
		if !seenK[f.Obligation] {
			seenK[f.Obligation] = true
			klist = append(klist, f.Obligation+" : "+f.What)
		}
	}
	probesOK, probesBad := run.nProbeOK, run.nProbeBad
	trusted := append([]string{}, cfg.TrustedBase...)
	trusted = append(trusted,
		"A1: int/int64/uint64/time.Duration arithmetic is mathematical (narrower widths wrap exactly)",
		"A2: golang.org/x/tools/go/ssa v0.29.0 represents the source; gc compiler and runtime implement the Go spec",
		"A7: the VC generator (/verif/engine), the SMT prelude and the solvers are correct",
		"pointer receivers of the functions under verification are non-nil")
	for _, k := range trustedContracts {
		trusted = append(trusted, "trusted contract: "+k)
	}
	crossN := 0
	for _, r := range run.results {
		if r != nil && r.CrossConfirmed {
			crossN++
		}
	}
	ev := map[string]interface{}{
		"property_id": id,
		"tier":        tier,
		"seed":        seed,
		"level":       "proof",
		"coverage": map[string]interface{}{
			"obligations":          nObl,
			"discharged":           nDis,
			"checker_cmd":          fmt.Sprintf("cd /verif && ./check %s %s   (govc: VC generation over go/ssa of /repo with -tags verif; per-obligation timeout %ds; portfolio: z3 5.1.0, z3 5.1.0 arith.solver=2, z3 4.8.12, cvc5 1.0; thorough additionally re-checks every proof with a second z3 release and runs the demonstrations of repaired findings)", id, tier, to),
			"trusted_base":         trusted,
			"functions_under_contract": fnList,
			"obligations_by_kind":  byKind,
			"by_backend":           byBackend,
			"solver_time_s":        round2(solverTime),
			"solver_time_max_s":    round2(maxTime),
			"slowest":              slowNames,
			"reachability_probes":  map[string]int{"not_provable_as_required": probesOK, "provable_vacuity_errors": probesBad},
			"samples":              samples,
			"known_findings":       klist,
			"unclaimed_obligations": unclaimedHit,
			"returns_unreachable_under_assumptions": deadList,
			"violations":           vlist,
			"engine_errors":        engineErrs,
			"unmodelled_or_havoced": notes,
			"generation_s":         round2(run.genTime),
			"cross_checked_by_second_solver": crossN,
			"finding_demonstrations_run":     demosRun,
		},
		"assumptions": append(append([]string{}, cfg.Assumptions...), trusted...),
		"wall_s":      round2(time.Since(t0).Seconds()),
		"violations":  len(viols),
	}
	os.MkdirAll(filepath.Join(eng.verifDir, "evidence"), 0o755)
	b, _ := json.MarshalIndent(ev, "", " ")
	os.WriteFile(filepath.Join(eng.verifDir, "evidence", id+".json"), b, 0o644)
	// report
	fmt.Printf("%s %s: %d functions, %d obligations, %d discharged, %d known-finding obligations, %d unclaimed, %d violations, %d engine errors, %.1fs\n",
		id, tier, len(run.fnRes), nObl, nDis, len(knownHit), len(unclaimedHit), len(viols), len(engineErrs), time.Since(t0).Seconds())
	for _, k := range klist {
		fmt.Printf("KNOWN-FINDING: property=%s %s\n", id, k)
	}
	for _, e := range engineErrs {
		fmt.Printf("ENGINE-ERROR: %s\n", e)
	}
	for _, v := range viols {
		suffix := ""
		if !v.confirmed {
			suffix = " no-failing-input-found"
		}
		fmt.Printf("  failed obligation: %s [%s] %s:%d : %s\n", v.res.Obl.name, v.res.Status, shortFile(v.res.Obl.pos.Filename), v.res.Obl.pos.Line, v.res.Obl.text)
		fmt.Printf("VIOLATION property=%s replay=%s%s\n", id, v.replay, suffix)
	}
	if len(viols) > 0 {
		return 1
	}
	if len(engineErrs) > 0 {
		return 2
	}
	if nObl == 0 {
		fmt.Println("ENGINE-ERROR: no obligations generated")
		return 2
	}
	return 0
}

func round2(f float64) float64 { return float64(int(f*100+0.5)) / 100 }

// runDemo runs the demonstration test of a repaired finding against /repo's working tree (go test -overlay).
func (eng *Engine) runDemo(f Finding) (bool, string) {
	src := filepath.Join(eng.verifDir, f.Demo)
	pkgDir := filepath.Join(eng.repoDir, f.DemoPkg)
	tmp, err := os.MkdirTemp("", "verif-demo-")
	if err != nil {
		return false, err.Error()
	}
	defer os.RemoveAll(tmp)
	ov := map[string]map[string]string{"Replace": {filepath.Join(pkgDir, filepath.Base(src)): src}}
	ob, _ := json.Marshal(ov)
	ovFile := filepath.Join(tmp, "ov.json")
	os.WriteFile(ovFile, ob, 0o644)
	cmd := exec.Command("go", "test", "-overlay", ovFile, "-vet=off", "-count=1", "-timeout", "120s", "-run", "^TestD[0-9]+", "./"+f.DemoPkg+"/")
	cmd.Dir = eng.repoDir
	cmd.Env = append(os.Environ(), "GOFLAGS=-mod=mod", "GOPROXY=off", "GOSUMDB=off", "GOTOOLCHAIN=local")
	b, err := cmd.CombinedOutput()
	out := string(b)
	if len(out) > 2000 {
		out = out[:2000]
	}
	return err == nil, out
}
