package main

import (
	"fmt"
	"go/types"
	"sort"
	"strings"
)

// Allocation typing (DESIGN 4.2, added in the build round): references are untyped integers, but every object has an
// allocation type rtype(ref). A value of type *T can only point into an object that contains a T inline; a []E can
// only point into an array of E (a make/append allocation, or an inline [N]E inside some object). The predicates
// pt_<T>, ar_<E> over type tags are uninterpreted, with their truth value fixed for the (finitely many) types
// allocated in the function under verification. This is what makes "a []byte never aliases a Lexer struct" and
// "a map is not a byte array" available to the solver without per-contract disjointness clauses.

type allocType struct {
	key  string     // tag key
	typ  types.Type // element type for arrays ("arr"), object type otherwise
	arr  bool
}

func (g *Gen) allocTag(at allocType) int {
	k := at.key
	if v, ok := tagTable[k]; ok {
		g.allocs[k] = at
		return v
	}
	v := len(tagTable) + 1
	tagTable[k] = v
	g.allocs[k] = at
	return v
}

// objKey: the allocation type of a map / channel object; the direction of a channel type is a property of the reference,
// not of the object
func objKey(t types.Type) allocType {
	u := t.Underlying()
	if c, ok := u.(*types.Chan); ok {
		u = types.NewChan(types.SendRecv, c.Elem())
	}
	return allocType{key: "obj:" + u.String(), typ: u}
}

func objAlloc(t types.Type) allocType {
	if a, ok := t.Underlying().(*types.Array); ok {
		return allocType{key: "arr:" + a.Elem().String(), typ: a.Elem(), arr: true}
	}
	return allocType{key: "obj:" + t.String(), typ: t}
}

func arrAlloc(elem types.Type) allocType {
	return allocType{key: "arr:" + elem.String(), typ: elem, arr: true}
}

type typePredT struct {
	kind string // "pt" or "ar"
	typ  types.Type
	name string
}

func (g *Gen) typePred(kind string, t types.Type) string {
	key := kind + ":" + t.String()
	if p, ok := g.preds[key]; ok {
		return p.name
	}
	name := fmt.Sprintf("%s_%d", kind, len(g.preds))
	g.preds[key] = &typePredT{kind, t, name}
	return name
}

// containsInline: an object of type a has a value of type t inline (a itself, a field, an array element, recursively)
func containsInline(a, t types.Type) bool {
	if types.Identical(a, t) {
		return true
	}
	switch u := a.Underlying().(type) {
	case *types.Struct:
		for i := 0; i < u.NumFields(); i++ {
			if containsInline(u.Field(i).Type(), t) {
				return true
			}
		}
	case *types.Array:
		return containsInline(u.Elem(), t)
	}
	// identical underlying types (named vs unnamed) may be converted between pointer types: be permissive
	if types.Identical(a.Underlying(), t.Underlying()) {
		return true
	}
	return false
}

// containsArrayOf: an object of type a has an inline array whose element type is e
func containsArrayOf(a, e types.Type) bool {
	switch u := a.Underlying().(type) {
	case *types.Struct:
		for i := 0; i < u.NumFields(); i++ {
			if containsArrayOf(u.Field(i).Type(), e) {
				return true
			}
		}
	case *types.Array:
		if types.Identical(u.Elem().Underlying(), e.Underlying()) {
			return true
		}
		return containsArrayOf(u.Elem(), e)
	}
	return false
}

func (p *typePredT) holds(at allocType) bool {
	switch p.kind {
	case "pt":
		if at.arr {
			return containsInline(at.typ, p.typ)
		}
		return containsInline(at.typ, p.typ)
	case "ar":
		if at.arr {
			if types.Identical(at.typ.Underlying(), p.typ.Underlying()) {
				return true
			}
			return containsArrayOf(at.typ, p.typ)
		}
		return containsArrayOf(at.typ, p.typ)
	}
	return true
}

// typingTable: declarations of the predicates and their values on the allocated types
func (g *Gen) typingTable() string {
	var sb strings.Builder
	var pk []string
	for k := range g.preds {
		pk = append(pk, k)
	}
	sort.Strings(pk)
	var ak []string
	for k := range g.allocs {
		ak = append(ak, k)
	}
	sort.Strings(ak)
	for _, k := range pk {
		p := g.preds[k]
		fmt.Fprintf(&sb, "(declare-fun %s (Int) Bool)\n", p.name)
		for _, a := range ak {
			at := g.allocs[a]
			if p.holds(at) {
				fmt.Fprintf(&sb, "(assert (%s %d))\n", p.name, tagTable[a])
			} else {
				fmt.Fprintf(&sb, "(assert (not (%s %d)))\n", p.name, tagTable[a])
			}
		}
	}
	return sb.String()
}
