package main

import (
	"strconv"
	"regexp"
	"fmt"
	"go/types"
	"strings"

	"golang.org/x/tools/go/ssa"
)

// Sweep assumptions (API-usage preconditions applied to every function of a sweep; listed in the evidence):
// pointer parameters are non-nil, function values supplied by the caller are non-nil, *uio.Lexer parameters are
// well-formed big-endian lexers (constructed by uio.NewBigEndianBuffer).
type Modes struct {
	NonNilParams bool
	NoAlias      bool // decoders: no reference into a []byte parameter may be stored, boxed or returned (C08)
	ReadOnly     bool // the function must not modify anything that existed at entry, not even its receiver (C20)
	Safety      bool // panic-freedom obligations
	Post        bool // ensures of the function's own contract
	Frame       bool // modifies/frame obligations on every write
	Termination bool // loop and recursion measures
	Probes      bool
}

type FnResult struct {
	Fn       string
	Gen      *Gen
	Contract *Contract
	Err      string // engine error (contract does not resolve, unsupported construct...) -> function out of reach
	Modes    Modes
	Renamed  string // the renaming of local variables under which the contract was applied (rename.go), if any
}

func paramWF(g *Gen, t types.Type, n string, st *State, isRecv bool) string {
	switch t.Underlying().(type) {
	case *types.Slice:
		return fmt.Sprintf("(and (>= (sref %s) 0) %s)", n, g.heapValWF(t, n, st))
	case *types.Pointer:
		if isRecv {
			return fmt.Sprintf("(and (> (pref %s) 0) (>= (poff %s) 0) %s)", n, n, g.heapValWF(t, n, st))
		}
		return fmt.Sprintf("(and (>= (pref %s) 0) (>= (poff %s) 0) %s)", n, n, g.heapValWF(t, n, st))
	case *types.Map, *types.Chan:
		return g.heapValWF(t, n, st)
	case *types.Interface, *types.Signature:
		return g.heapValWF(types.NewInterfaceType(nil, nil), n, st)
	case *types.Struct:
		a := &Act{g: g}
		return a.loadedWF(t, n, st)
	}
	if rf := rangeFact(t, n); rf != "" {
		return rf
	}
	return "true"
}

func (eng *Engine) verifyFunction(fn *ssa.Function, modes Modes) (res *FnResult) {
	return eng.verifyFunctionSpec(fn, modes, nil)
}

// verifyFunctionSpec verifies fn with some function-valued parameters bound to known top-level functions
// (spec: parameter name -> function); the contract variant key[funcName] is used when it exists.
func (eng *Engine) verifyFunctionSpec(fn *ssa.Function, modes Modes, spec map[string]*ssa.Function) (res *FnResult) {
	res = eng.verifyFunctionWith(fn, modes, spec, nil)
	if ct := res.Contract; ct != nil && !ct.Trusted {
		gone := false
		if res.Err == "" && len(ct.Cuts) > 0 {
			lines := eng.sourceLinesOf(fn)
			for _, cut := range ct.Cuts {
				if !strings.HasPrefix(cut.Anchor, "call:") && cut.Anchor != "go:" && cut.Anchor != "loopend:" && !lines[anchorText(cut.Anchor)] {
					gone = true
				}
			}
		}
		if strings.HasPrefix(res.Err, "contract error:") && unresolvedRe.MatchString(res.Err) || gone {
			// a local variable the contract names may have been renamed (rename.go)
			if alt := eng.inferRenaming(fn, modes, spec, ct, res.Err); alt != nil {
				alt.Gen.note("contract applied with local variables renamed: %s", alt.Renamed)
				return alt
			}
			// the clause that does not resolve may belong to a callee whose body is executed in place
			for _, owner := range eng.clauseOwners(res.Err) {
				if owner == fn {
					continue
				}
				if oct := eng.contractFor(owner); oct != nil && eng.ctOverride[shortFn(owner)] == nil {
					if r := eng.inferRenaming(owner, modes, nil, oct, res.Err); r != nil && r.Contract != nil {
						if eng.ctOverride == nil {
							eng.ctOverride = map[string]*Contract{}
						}
						eng.ctOverride[shortFn(owner)] = r.Contract
						res2 := eng.verifyFunctionWith(fn, modes, spec, nil)
						res2.Gen.note("contract of %s applied with local variables renamed: %s", shortFn(owner), r.Renamed)
						return res2
					}
				}
			}
		}
	}
	return res
}

// verifyFunctionWith: verifyFunctionSpec with the contract given (nil: the one declared for fn)
func (eng *Engine) verifyFunctionWith(fn *ssa.Function, modes Modes, spec map[string]*ssa.Function, override *Contract) (res *FnResult) {
	res = &FnResult{Fn: shortFn(fn), Modes: modes}
	g := NewGen(eng, fn)
	res.Gen = g
	ct := eng.contractFor(fn)
	for _, f := range spec {
		res.Fn += "[" + f.Name() + "]"
		g.variant += "[" + f.Name() + "]"
		if v := eng.contracts[shortFn(fn)+"["+f.Name()+"]"]; v != nil {
			ct = v
		}
	}
	if override != nil {
		ct = override
	}
	res.Contract = ct
	g.topCt = ct
	g.trackEsc = ct != nil && (ct.NoAlloc || ct.NoAllocWhen != nil) && !ct.Trusted && modes.Post
	g.trackLocks = (modes.Safety || modes.Post) && eng.usesLocks(fn, 1)
	defer func() {
		if r := recover(); r != nil {
			if ce, ok := r.(contractError); ok {
				res.Err = "contract error: " + ce.msg
				return
			}
			res.Err = fmt.Sprintf("engine error: %v", r)
			if eng.debugPanics {
				panic(r)
			}
		}
	}()
	eng.wantSafety = modes.Safety
	eng.wantCallPre = modes.Safety || modes.Post
	eng.wantTermination = modes.Termination
	eng.probes = modes.Probes
	// a contract's modifies clause (default: nothing) is assumed by loop frames and by callers, so it is checked
	// whenever the contract is; functions without contract are only assumed effect-free when a static analysis says so
	g.checkFrame = modes.Frame || (modes.Post && ct != nil && !ct.Trusted && eng.specBySSA(fn) == nil)
	// functions without contract: default frame "a method may modify the object its pointer receiver points to, nothing
	// else that existed at entry"; this default is assumed by loop frames and therefore always checked (frame obligations)
	defaultFrame := ct == nil
	if defaultFrame && hasLoops(fn) {
		// the entry frame is only relied upon at loop heads
		g.checkFrame = true
	}
	st0 := g.freshState("entry")
	g.entry = st0
	g.assume(fmt.Sprintf("(> %s 0)", st0.Next))
	// Go memory safety for the entry heap: every reference stored anywhere is allocated (DESIGN 4.2)
	for _, k := range []string{"L", "ML"} {
		g.assume(fmt.Sprintf("(forall ((r Int) (o Int)) (! (let ((v (select (select %s r) o))) (and (< (sref v) %s) (<= 0 (soff v)) (<= 0 (sllen v)) (<= (sllen v) (scap v)) (=> (= (sref v) 0) (= (scap v) 0)))) :pattern ((select (select %s r) o))))", st0.H[k], st0.Next, st0.H[k]))
	}
	for _, k := range []string{"R", "MR"} {
		g.assume(fmt.Sprintf("(forall ((r Int) (o Int)) (! (< (select (select %s r) o) %s) :pattern ((select (select %s r) o))))", st0.H[k], st0.Next, st0.H[k]))
	}
	for _, k := range []string{"P", "MP"} {
		g.assume(fmt.Sprintf("(forall ((r Int) (o Int)) (! (< (pref (select (select %s r) o)) %s) :pattern ((select (select %s r) o))))", st0.H[k], st0.Next, st0.H[k]))
	}
	if g.inPlace() {
		// function values that exist at entry are not closures created during the call (closure identities are allocated
		// from 2000001 on, one per MakeClosure executed)
		for _, k := range []string{"F", "MF"} {
			g.assume(fmt.Sprintf("(forall ((r Int) (o Int)) (! (=> (is-bOpaque (ibox (select (select %s r) o))) (< (ubOpaque (ibox (select (select %s r) o))) 2000000)) :pattern ((select (select %s r) o))))", st0.H[k], st0.H[k], st0.H[k]))
		}
	}
	// initial contents of immutable package-level variables (constants stored by the package initialiser)
	refd := map[*ssa.Global]bool{}
	eng.referencedGlobals(fn, 0, map[*ssa.Function]bool{}, refd)
	for gl := range refd {
		if eng.globalReassigned(gl) {
			continue
		}
		facts := eng.globalInit(gl)
		for _, f := range facts {
			if f.kind == "" {
				continue
			}
			g.assume(fmt.Sprintf("(= %s %s)", sel(st0.H[f.kind], fmt.Sprintf("(- %d)", eng.globalID(gl)), fmt.Sprint(f.slot)), f.term))
		}
		// a byte array whose every element is a known constant: also as one string (saves the element-wise argument)
		if at, ok := gl.Type().(*types.Pointer).Elem().Underlying().(*types.Array); ok && at.Len() > 0 && at.Len() <= 64 {
			if bt, ok := at.Elem().Underlying().(*types.Basic); ok && bt.Kind() == types.Uint8 {
				bs := make([]byte, at.Len())
				known := map[int]bool{}
				for _, f := range facts {
					if f.kind == "I" && f.slot >= 0 && f.slot < len(bs) {
						if v, err := strconv.Atoi(f.term); err == nil && v >= 0 && v < 256 {
							bs[f.slot] = byte(v)
							known[f.slot] = true
						}
					}
				}
				if len(known) == len(bs) {
					g.assume(fmt.Sprintf("(seqeq (sofarr (select %s (- %d)) 0 %d) %s)", st0.H["I"], eng.globalID(gl), len(bs), g.strLit(string(bs))))
				}
			}
		}
	}
	top := &Act{g: g, fn: fn, prefix: "", top: true, tuples: map[ssa.Value][]string{}, ct: ct, lets: map[string]tv{}, firedCuts: map[*Cut]bool{}}
	if ct != nil {
		top.unrollN = ct.UnrollAll
	}
	var args []string
	for i, p := range fn.Params {
		n := g.havoc("p_"+p.Name(), g.sortOf(p.Type()))
		args = append(args, n)
		if g.paramTerms == nil {
			g.paramTerms = map[string]string{}
		}
		g.paramTerms[p.Name()] = n
		isRecv := i == 0 && fn.Signature.Recv() != nil
		if f := spec[p.Name()]; f != nil {
			// specialised parameter: the value is exactly this function
			top0 := &Act{g: g}
			g.assume(fmt.Sprintf("(= %s %s)", n, top0.val(f)))
			eng.funcByTerm[n] = f
		}
		g.assume(paramWF(g, p.Type(), n, st0, isRecv))
		if modes.NonNilParams {
			switch p.Type().Underlying().(type) {
			case *types.Pointer:
				g.assume(fmt.Sprintf("(> (pref %s) 0)", n))
			case *types.Signature:
				g.assume(fmt.Sprintf("(not (= %s nilIface))", n))
			case *types.Interface:
				g.assume(fmt.Sprintf("(not (= %s nilIface))", n))
				g.assume(g.heapValWF(p.Type(), n, st0))
			}
		}
	}
	// free variables of closures verified on their own: arbitrary cells
	top.preEnv = map[ssa.Value]string{}
	for _, fv := range fn.FreeVars {
		n := g.havoc("fv_"+fv.Name(), "Ptr")
		g.assume(fmt.Sprintf("(and (> (pref %s) 0) (< (pref %s) %s) (>= (poff %s) 0))", n, n, st0.Next, n))
		top.preEnv[fv] = n
		// the cells of different captured variables are different objects
		for _, other := range fn.FreeVars {
			if other == fv {
				break
			}
			g.assume(fmt.Sprintf("(not (= (pref %s) (pref %s)))", n, top.preEnv[other]))
		}
		g.assume(fmt.Sprintf("(= (poff %s) 0)", n))
	}
	if modes.ReadOnly && ct == nil {
		g.checkFrame = true
	}
	if defaultFrame && !modes.ReadOnly && fn.Signature.Recv() != nil && len(args) > 0 {
		if _, isPtr := fn.Params[0].Type().Underlying().(*types.Pointer); isPtr {
			r := g.def("modref", "Int", fmt.Sprintf("(pref %s)", args[0]))
			g.modRefs = []string{r}
			g.modRanges = []modRange{{r, fmt.Sprintf("(poff %s)", args[0]), fmt.Sprintf("(+ (poff %s) %d)", args[0], slots(fn.Params[0].Type().Underlying().(*types.Pointer).Elem()))}}
			// ... and the backing arrays of the slices stored directly in that object (appending to a field may write
			// into the spare capacity of its array)
			et := fn.Params[0].Type().Underlying().(*types.Pointer).Elem()
			for _, off := range sliceSlots(et, 0) {
				g.modRefs = append(g.modRefs, g.def("modref", "Int", fmt.Sprintf("(sref %s)", sel(st0.H["L"], fmt.Sprintf("(pref %s)", args[0]), fmt.Sprintf("(+ (poff %s) %d)", args[0], off)))))
				g.modRanges = append(g.modRanges, modRange{g.modRefs[len(g.modRefs)-1], "", ""})
			}
			recv := args[0]
			slotsL := sliceSlots(et, 0)
			entryH := st0.H["L"]
			entryNext := st0.Next
			// automatic loop invariant that goes with this default: each of those slices still uses its original array or
			// one allocated during the call
			g.recvSliceInv = func(st *State) []string {
				var out []string
				for _, off := range slotsL {
					cur := sel(st.H["L"], fmt.Sprintf("(pref %s)", recv), fmt.Sprintf("(+ (poff %s) %d)", recv, off))
					old := sel(entryH, fmt.Sprintf("(pref %s)", recv), fmt.Sprintf("(+ (poff %s) %d)", recv, off))
					out = append(out, fmt.Sprintf("(and (or (= (sref %s) 0) (= (sref %s) (sref %s)) (and (>= (sref %s) %s) (< (sref %s) %s))) (<= 0 (soff %s)) (<= 0 (sllen %s)) (<= (sllen %s) (scap %s)))", cur, cur, old, cur, entryNext, cur, st.Next, cur, cur, cur, cur))
				}
				return out
			}
			refs := g.modRefs
			g.modset = func(x string) string {
				var alts []string
				for _, m := range refs {
					alts = append(alts, fmt.Sprintf("(= %s %s)", x, m))
				}
				if len(alts) == 1 {
					return alts[0]
				}
				return "(or " + strings.Join(alts, " ") + ")"
			}
		}
	}
	if modes.NoAlias {
		for i, p := range fn.Params {
			if sl, ok := p.Type().Underlying().(*types.Slice); ok {
				if b, ok := sl.Elem().Underlying().(*types.Basic); ok && b.Kind() == types.Uint8 {
					retained := false
					if ct != nil {
						for _, r := range ct.Retains {
							if r == p.Name() {
								retained = true
							}
						}
					}
					if !retained {
						g.inputBufs = append(g.inputBufs, args[i])
						g.inputNames = append(g.inputNames, p.Name())
						// no slice stored in the heap at entry already points into the input buffer: aliasing that exists
						// before the call is not the decoder's doing (this only excludes pre-existing aliases)
						for _, k := range []string{"L", "ML"} {
							g.assume(fmt.Sprintf("(forall ((r Int) (o Int)) (! (or (= (sref %s) 0) (not (= (sref (select (select %s r) o)) (sref %s)))) :pattern ((select (select %s r) o))))", args[i], st0.H[k], args[i], st0.H[k]))
						}
					}
				}
			}
		}
	}
	top.args = args
	top.env = map[ssa.Value]string{}
	for i, p := range fn.Params {
		top.env[p] = args[i]
	}
	for k, x := range top.preEnv {
		top.env[k] = x
	}
	top.entry = st0.clone()
	if modes.NonNilParams {
		// *uio.Lexer parameters: well-formed big-endian lexer (macro lexOK of extern/uio.contracts)
		for i, p := range fn.Params {
			if shortName(p.Type().String()) == "*uio.Lexer" {
				if mc := findMacro("lexOK"); mc != nil {
					e := top.newEnv(st0, nil, nil)
					c := e.child()
					c.bound[mc.Params[0]] = tv{term: args[i], typ: p.Type()}
					g.assume(c.evalBool(mc.Body.Expr))
				}
			}
		}
	}
	if ct != nil {
		for _, l := range ct.Lets {
			e := top.newEnv(st0, nil, nil)
			func() {
				defer wrapClauseErr(l)
				top.lets[l.Label] = e.value(e.eval(l.Expr))
			}()
		}
		for _, cl := range ct.Requires {
			for _, c := range top.evalClauseAt(cl, st0, nil, nil) {
				g.assume(c)
			}
		}
		if modes.Frame || len(ct.Modifies) > 0 {
			var refs []string
			var ranges []modRange
			var kindsOnly []modTarget
			for _, m := range ct.Modifies {
				e := top.newEnv(st0, nil, nil)
				var v tv
				func() {
					defer wrapClauseErr(m)
					v = e.value(e.eval(m.Expr))
				}()
				rg, ok := rangeOf(v)
				if !ok {
					panic(contractError{fmt.Sprintf("%s: modifies target has no reference: %s", m.Where, m.Text)})
				}
				rg.ref = g.def("modref", "Int", rg.ref)
				if rg.lo != "" {
					rg.lo = g.def("modlo", "Int", rg.lo)
					rg.hi = g.def("modhi", "Int", rg.hi)
				}
				refs = append(refs, rg.ref)
				ranges = append(ranges, rg)
				kindsOnly = append(kindsOnly, modTarget{kinds: targetKinds(v.typ)})
			}
			g.modRefs = refs
			g.modRanges = ranges
			g.modKindsOnly = kindsOnly
			g.modAll = ct.ModifiesAll
			if ct.ModifiesAll {
				g.modset = func(r string) string { return "true" }
			} else if len(refs) > 0 {
				g.modset = func(r string) string {
					var alts []string
					for _, m := range refs {
						alts = append(alts, fmt.Sprintf("(= %s %s)", r, m))
					}
					if len(alts) == 1 {
						return alts[0]
					}
					return "(or " + strings.Join(alts, " ") + ")"
				}
			}
		}
		// cited lemmas: "use lemma(args)" instantiates the lemma's ensures at entry (its requires become obligations)
		for _, u := range ct.Uses {
			if usesResult(u) {
				continue // instantiated at every return (checkPost)
			}
			top.useLemma(u, st0)
		}
	}
	if modes.Probes {
		g.oblige("PROBE", "entry-reachable", "true", "false", eng.prog.Fset.Position(fn.Pos()), "must-fail reachability probe after requires").probe = true
	}
	if fnHasGo(fn) {
		// the ghost spawn counter changes inside loops: it is part of what loop heads forget
		for len(g.modKindsOnly) < len(g.modRefs) {
			g.modKindsOnly = append(g.modKindsOnly, modTarget{})
		}
		g.modRefs = append(g.modRefs, ghostSpawnRef)
		g.modRanges = append(g.modRanges, modRange{ghostSpawnRef, "", ""})
		g.modKindsOnly = append(g.modKindsOnly, modTarget{kinds: map[string]bool{"I": true}})
	}
	g.seq++
	g.entrySeq = g.seq
	top.run2(args, st0, "true")
	if ct != nil && modes.Post {
		for _, c := range ct.Cuts {
			if !top.firedCuts[c] {
				if c.Claim {
					// a claim carries part of the property: not being able to state it is reported
					g.oblige("claim", fmt.Sprintf("%s:anchor-missing", clauseLabel(c.Cl, 0, 0)), "true", "false", eng.prog.Fset.Position(fn.Pos()), fmt.Sprintf("claim cannot be placed: no statement `%s` (nor one resembling it) in %s: %s", c.Anchor, shortFn(fn), c.Cl.Text))
					continue
				}
				// intermediate assertions are proof steps: when the statement they are anchored on is gone the step is
				// skipped (the postconditions still have to be proved, without its help)
				g.note("intermediate assertion skipped: no statement `%s` in %s (%s)", c.Anchor, shortFn(fn), c.Cl.Where)
			}
		}
	}
	if len(top.rets) == 0 && modes.Post {
		g.note("function never returns normally")
	}
	return res
}

// sliceSlots: slot offsets of the slice-typed fields stored inline in an object of type t
func sliceSlots(t types.Type, base int) []int {
	switch u := t.Underlying().(type) {
	case *types.Slice:
		return []int{base}
	case *types.Struct:
		var out []int
		for i := 0; i < u.NumFields(); i++ {
			out = append(out, sliceSlots(u.Field(i).Type(), base+fieldSlot(u, i))...)
		}
		return out
	}
	return nil
}

func wrapClauseErr(cl *Clause) {
	if r := recover(); r != nil {
		if ce, ok := r.(contractError); ok {
			panic(contractError{fmt.Sprintf("%s: %s  [in: %s]", cl.Where, ce.msg, cl.Text)})
		}
		panic(r)
	}
}

// run2 is run() keeping the pre-set args/env of the top activation
func (a *Act) run2(args []string, st0 *State, reach0 string) {
	a.run(args, st0, reach0)
}

// checkPost emits the postcondition obligations at a return of the top function.
func (a *Act) checkPost(r retInfo) {
	g := a.g
	if g.trackLocks && a.top {
		g.oblige("lock-balance", a.srcDetail(r.instr), r.reach, fmt.Sprintf("(= %s %s)", g.locksNow(r.st), g.locksNow(g.entry)), a.pos(r.instr.Pos()), "lock balance: the function returns with the mutexes it locked released")
	}
	if a.ct == nil || !g.eng.curModes.Post {
		if g.eng.probes && a.top {
			g.oblige("PROBE", fmt.Sprintf("return-reachable:%s", a.srcDetail(r.instr)), r.reach, "false", a.pos(r.instr.Pos()), "must-fail reachability probe at return").probe = true
		}
		return
	}
	if g.eng.probes {
		// before the postconditions are assumed (each one is, after it has been an obligation, for the ones after it): a
		// refuted probe then means that the path itself is contradictory - which discharges the postconditions at this
		// return - and not that a failed postcondition made it so
		g.oblige("PROBE", fmt.Sprintf("return-reachable:%s", a.srcDetail(r.instr)), r.reach, "false", a.pos(r.instr.Pos()), "must-fail reachability probe at return").probe = true
	}
	for _, u := range a.ct.Uses {
		if usesResult(u) {
			a.applyLemmaR(u, r.st, nil, r.reach, r.vals)
		}
	}
	for i, cl := range a.ct.Ensures {
		for j, c := range a.evalClauseAt(cl, r.st, nil, r.vals) {
			o := g.oblige("post", fmt.Sprintf("%s:%s", clauseLabel(cl, i, j), a.srcDetail(r.instr)), r.reach, c, a.pos(r.instr.Pos()), "ensures "+cl.Text)
			if o != nil {
				o.splits = cl.Splits
			}
			// the clauses are proved in order; a later one may rely on the earlier ones (each is an obligation of its own)
			g.assumeIf(r.reach, c)
		}
	}
	// noalloc claims are checked: the allocation counter at the return is the one at entry
	if a.ct.NoAlloc && !a.ct.Trusted && g.trackEsc {
		g.oblige("noalloc", a.srcDetail(r.instr), r.reach, fmt.Sprintf("(= %s %s)", g.escNow(r.st), g.escNow(g.entry)), a.pos(r.instr.Pos()), "noalloc: nothing that outlives the call is allocated")
	}
	if a.ct.NoAllocWhen != nil && !a.ct.Trusted && g.trackEsc {
		for _, c := range a.evalClauseAt(a.ct.NoAllocWhen, r.st, nil, r.vals) {
			g.oblige("noalloc", a.srcDetail(r.instr), r.reach, fmt.Sprintf("(=> %s (= %s %s))", c, g.escNow(r.st), g.escNow(g.entry)), a.pos(r.instr.Pos()), "noalloc when "+a.ct.NoAllocWhen.Text)
		}
	}
	a.checkRefines(r)
}

// checkRefines: a method whose receiver type implements an interface for whose method of the same name a contract is
// declared (key pkg.Iface.Method) must satisfy that contract with self = the receiver boxed in the interface
// (obligation kind "refine"): this is what makes the interface contract usable at calls through the interface.
func (a *Act) checkRefines(r retInfo) {
	g := a.g
	eng := g.eng
	recv := a.fn.Signature.Recv()
	if recv == nil || len(a.args) == 0 {
		return
	}
	for _, key := range eng.sortedContractKeys() {
		ict := eng.contracts[key]
		parts := strings.Split(key, ".")
		if len(parts) != 3 || parts[2] != a.fn.Name() || ict.FnType {
			continue
		}
		p := eng.pkgByPath(ict.PkgPath)
		if p == nil {
			continue
		}
		obj := p.Scope().Lookup(parts[1])
		if obj == nil {
			continue
		}
		it, ok := obj.Type().Underlying().(*types.Interface)
		if !ok || !types.Implements(recv.Type(), it) {
			continue
		}
		st := r.st.clone()
		self := g.def(a.nm("self"), "Iface", a.makeIface(recv.Type(), a.args[0], st, a.nm("selfbox")))
		cs := &callSite{a: a, ct: ict, fn: nil, args: append([]string{self}, a.args[1:]...), pre: g.entry, res: r.vals}
		for i, cl := range ict.Ensures {
			for j, c := range cs.evalClause(cl, st, g.entry) {
				g.oblige("refine", fmt.Sprintf("%s:%s:%s", key, clauseLabel(cl, i, j), a.srcDetail(r.instr)), r.reach, c, a.pos(r.instr.Pos()), "interface contract "+key+": ensures "+cl.Text)
			}
		}
	}
}

// useLemma: evaluate "lemmaName(args)" : assert its requires, assume its ensures (lemmas are pure ghost functions with contracts)
func (a *Act) useLemma(u *Clause, st *State) {
	g := a.g
	e := a.newEnv(st, nil, nil)
	call, ok := u.Expr.(interface{})
	_ = call
	_ = ok
	_ = e
	g.note("use clauses are evaluated by the lemma layer")
	a.applyLemma(u, st, nil, "true")
}

var resultWordRe = regexp.MustCompile(`\b(result[0-9]*|err)\b`)

// usesResult: the lemma instantiation mentions the function's results: it is applied at the returns, not at entry
func usesResult(u *Clause) bool { return resultWordRe.MatchString(u.Text) }
