package main

import (
	"regexp"
	"bufio"
	"fmt"
	"go/ast"
	"go/token"
	"go/types"
	"os"
	"path/filepath"
	"sort"
	"strings"

	"golang.org/x/tools/go/packages"
	"golang.org/x/tools/go/ssa"
	"golang.org/x/tools/go/ssa/ssautil"
)

const repoModule = "github.com/insomniacslk/dhcp"

type Engine struct {
	repoDir   string
	replayBudget bool
	crossCheck   bool // thorough tier: every proof is re-checked by a second, different solver
	verifDir  string
	pkgs      []*packages.Package
	allPkgs   map[string]*packages.Package
	prog      *ssa.Program
	contracts map[string]*Contract
	specs     map[string]*specFn
	fnByKey   map[string]*ssa.Function
	allFns    map[*ssa.Function]bool
	ctOverride map[string]*Contract // contracts applied under an inferred renaming of locals (rename.go)

	globals   map[*ssa.Global]int
	funcs     map[*ssa.Function]int
	nclosure  int
	srcCache  map[string][]string
	writeSum  map[*ssa.Function]map[string]bool
	reassigned map[*ssa.Global]bool
	concrete  []types.Type
	implCache map[string][]impl
	sizeCache map[*ssa.Function]int

	// per-run options
	wantSafety      bool
	wantCallPre     bool
	wantTermination bool
	probes          bool
	assumePureDynamic bool
	inlineLimit     int
	dispatchLimit   int
	goHook          func(a *Act, in *ssa.Go, st *State, reach string)
	chanHook        *chanHooks
	pureExterns     map[string]bool
	inlineExterns   map[string]bool
	contractErrors  []string
	curModes        Modes
	curPureDynamic  bool
	debugPanics     bool
	keys            []string
	sccOf           map[string]int
	funcByTerm      map[string]*ssa.Function
	specialize      map[string]string // parameter name -> function key, for the function currently verified
	defaults        map[string]*Contract
	ginit           map[*ssa.Global][]globalInitFact
	bodySum         map[*ssa.Function]map[string]bool
	ctKeys          []string
	sacCache        map[*ssa.Alloc]bool
}

type chanHooks struct {
	send  func(a *Act, in *ssa.Send, st *State, reach string) bool
	recv  func(a *Act, in *ssa.UnOp, st *State, reach string) bool
	close func(a *Act, instr ssa.Instruction, ch string, st *State, reach string) bool
	sel   func(a *Act, in *ssa.Select, st *State, reach string) bool
}

func NewEngine(repoDir, verifDir string) *Engine {
	defer func() {}()
	eng := newEngine(repoDir, verifDir)
	theEngine = eng
	return eng
}

func newEngine(repoDir, verifDir string) *Engine {
	return &Engine{repoDir: repoDir, verifDir: verifDir, allPkgs: map[string]*packages.Package{}, contracts: map[string]*Contract{}, specs: map[string]*specFn{},
		fnByKey: map[string]*ssa.Function{}, globals: map[*ssa.Global]int{}, funcs: map[*ssa.Function]int{}, srcCache: map[string][]string{},
		writeSum: map[*ssa.Function]map[string]bool{}, implCache: map[string][]impl{}, sizeCache: map[*ssa.Function]int{},
		funcByTerm: map[string]*ssa.Function{}, inlineLimit: 400, dispatchLimit: 10, pureExterns: map[string]bool{}, inlineExterns: map[string]bool{}}
}

func (eng *Engine) load(patterns []string) error {
	cfg := &packages.Config{Mode: packages.LoadAllSyntax, Dir: eng.repoDir, BuildFlags: []string{"-tags=verif"}, Env: append(os.Environ(), "GOFLAGS=-mod=mod", "GOPROXY=off", "GOSUMDB=off", "GOTOOLCHAIN=local")}
	pkgs, err := packages.Load(cfg, patterns...)
	if err != nil {
		return err
	}
	nerr := 0
	packages.Visit(pkgs, nil, func(p *packages.Package) {
		eng.allPkgs[p.PkgPath] = p
		for _, e := range p.Errors {
			if strings.HasPrefix(p.PkgPath, repoModule) {
				fmt.Fprintf(os.Stderr, "load error in %s: %v\n", p.PkgPath, e)
				nerr++
			}
		}
	})
	if nerr > 0 {
		return fmt.Errorf("%d load errors in repository packages (does the tree compile with -tags verif?)", nerr)
	}
	if len(pkgs) == 0 {
		return fmt.Errorf("no packages loaded")
	}
	eng.pkgs = pkgs
	prog, _ := ssautil.AllPackages(pkgs, ssa.GlobalDebug)
	prog.Build()
	eng.prog = prog
	eng.allFns = ssautil.AllFunctions(prog)
	for fn := range eng.allFns {
		eng.fnByKey[shortFn(fn)] = fn
	}
	// contracts and specification functions from verif_*.go files of repository packages
	for _, p := range eng.allPkgs {
		if !strings.HasPrefix(p.PkgPath, repoModule) {
			continue
		}
		for i, f := range p.Syntax {
			fname := p.CompiledGoFiles[i]
			if !strings.HasPrefix(filepath.Base(fname), "verif_") {
				continue
			}
			cts, err := parseContractFile(fname, p.Name, p.PkgPath)
			if err != nil {
				return fmt.Errorf("contract file %s: %v", fname, err)
			}
			for _, c := range cts {
				if eng.contracts[c.Key] != nil {
					return fmt.Errorf("duplicate contract %s (%s and %s)", c.Key, c.Where, eng.contracts[c.Key].Where)
				}
				eng.contracts[c.Key] = c
			}
			for _, d := range f.Decls {
				fd, ok := d.(*ast.FuncDecl)
				if !ok || fd.Recv != nil || fd.Body == nil {
					continue
				}
				obj, _ := p.TypesInfo.Defs[fd.Name].(*types.Func)
				if obj == nil {
					continue
				}
				sig := obj.Type().(*types.Signature)
				if sig.Results().Len() != 1 {
					continue
				}
				full := obj.FullName()
				eng.specs[full] = &specFn{name: full, smtName: "spec_" + sanitize(p.Name+"_"+fd.Name.Name), obj: obj, decl: fd, pkg: p.Types, ct: eng.contracts[p.Name+"."+fd.Name.Name]}
			}
		}
	}
	// extern contracts
	extDir := filepath.Join(eng.verifDir, "engine", "extern")
	files, _ := filepath.Glob(filepath.Join(extDir, "*.contracts"))
	sort.Strings(files)
	for _, f := range files {
		pkgName, pkgPath := externHeader(f)
		cts, err := parseContractFile(f, pkgName, pkgPath)
		if err != nil {
			return fmt.Errorf("extern contract file %s: %v", f, err)
		}
		for _, c := range cts {
			eng.contracts[c.Key] = c
		}
	}
	return nil
}

func externHeader(path string) (name, pkgPath string) {
	f, err := os.Open(path)
	if err != nil {
		return "", ""
	}
	defer f.Close()
	sc := bufio.NewScanner(f)
	for sc.Scan() {
		t := strings.TrimSpace(sc.Text())
		if strings.HasPrefix(t, "//@ package ") {
			fs := strings.Fields(t[len("//@ package "):])
			if len(fs) == 2 {
				return fs[0], fs[1]
			}
		}
	}
	return "", ""
}

func (eng *Engine) globalID(g *ssa.Global) int {
	if id, ok := eng.globals[g]; ok {
		return id
	}
	// deterministic ids: assign in sorted order on first use
	if len(eng.globals) == 0 {
		var all []*ssa.Global
		for _, p := range eng.prog.AllPackages() {
			for _, m := range p.Members {
				if gl, ok := m.(*ssa.Global); ok {
					all = append(all, gl)
				}
			}
		}
		sort.Slice(all, func(i, j int) bool { return all[i].String() < all[j].String() })
		for i, gl := range all {
			eng.globals[gl] = i + 1
		}
		if id, ok := eng.globals[g]; ok {
			return id
		}
	}
	id := len(eng.globals) + 1
	eng.globals[g] = id
	return id
}

func (eng *Engine) globalByObj(o *types.Var) *ssa.Global {
	if o.Pkg() == nil {
		return nil
	}
	p := eng.prog.Package(o.Pkg())
	if p == nil {
		return nil
	}
	gl, _ := p.Members[o.Name()].(*ssa.Global)
	return gl
}

func (eng *Engine) funcID(f *ssa.Function) int {
	if id, ok := eng.funcs[f]; ok {
		return id
	}
	id := 1000000 + len(eng.funcs)
	eng.funcs[f] = id
	return id
}

func (eng *Engine) closureID() int {
	eng.nclosure++
	return 2000000 + eng.nclosure
}

func (eng *Engine) sourceLine(p token.Position) string {
	if !p.IsValid() {
		return ""
	}
	lines, ok := eng.srcCache[p.Filename]
	if !ok {
		data, err := os.ReadFile(p.Filename)
		if err == nil {
			lines = strings.Split(string(data), "\n")
		}
		eng.srcCache[p.Filename] = lines
	}
	if p.Line-1 < len(lines) && p.Line >= 1 {
		l := strings.Join(strings.Fields(lines[p.Line-1]), " ")
		if i := strings.Index(l, "//"); i > 0 {
			l = strings.TrimSpace(l[:i])
		}
		if len(l) > 70 {
			l = l[:70]
		}
		return l
	}
	return ""
}

func (eng *Engine) inRepoOrUio(fn *ssa.Function) bool {
	p := fn.Pkg
	if p == nil && fn.Parent() != nil {
		p = fn.Parent().Pkg
	}
	if p == nil {
		// synthetic wrappers etc.: decide by receiver/object package
		if fn.Object() != nil && fn.Object().Pkg() != nil {
			pp := fn.Object().Pkg().Path()
			return strings.HasPrefix(pp, repoModule) || strings.HasPrefix(pp, "github.com/u-root/uio")
		}
		return fn.Synthetic != ""
	}
	pp := p.Pkg.Path()
	return strings.HasPrefix(pp, repoModule) || strings.HasPrefix(pp, "github.com/u-root/uio")
}

func (eng *Engine) inRepo(fn *ssa.Function) bool {
	p := fn.Pkg
	if p == nil && fn.Parent() != nil {
		p = fn.Parent().Pkg
	}
	if p == nil {
		if fn.Object() != nil && fn.Object().Pkg() != nil {
			return strings.HasPrefix(fn.Object().Pkg().Path(), repoModule)
		}
		return false
	}
	return strings.HasPrefix(p.Pkg.Path(), repoModule)
}

func (eng *Engine) inlineExtern(name string) bool { return eng.inlineExterns[name] }

func (eng *Engine) isPureExtern(name string) bool {
	if eng.pureExterns[name] {
		return true
	}
	for p := range eng.pureExterns {
		if strings.HasSuffix(p, "*") && strings.HasPrefix(name, p[:len(p)-1]) {
			return true
		}
	}
	return false
}

func (eng *Engine) ssaSize(fn *ssa.Function) int {
	if n, ok := eng.sizeCache[fn]; ok {
		return n
	}
	n := 0
	for _, b := range fn.Blocks {
		n += len(b.Instrs)
	}
	eng.sizeCache[fn] = n
	return n
}

func (eng *Engine) contractFor(fn *ssa.Function) *Contract {
	if c := eng.ctOverride[shortFn(fn)]; c != nil {
		return c
	}
	return eng.contracts[shortFn(fn)]
}

func (eng *Engine) defaultContract(fn *ssa.Function) *Contract {
	key := shortFn(fn)
	if ct, ok := eng.defaults[key]; ok {
		return ct
	}
	pkgName, pkgPath := "", ""
	if fn.Pkg != nil {
		pkgName, pkgPath = fn.Pkg.Pkg.Name(), fn.Pkg.Pkg.Path()
	}
	ct := &Contract{Key: key, PkgName: pkgName, PkgPath: pkgPath, Loops: map[int]*LoopSpec{}, Where: "default contract", Default: true}
	if recv := fn.Signature.Recv(); recv != nil && len(fn.Params) > 0 {
		if _, isPtr := recv.Type().Underlying().(*types.Pointer); isPtr && fn.Params[0].Name() != "" && fn.Params[0].Name() != "_" {
			cl := &Clause{Text: fn.Params[0].Name(), Where: "default contract"}
			if err := cl.parse(); err == nil {
				ct.Modifies = []*Clause{cl}
			}
			ct.ModifiesRecvSlices = true
		}
	}
	if eng.defaults == nil {
		eng.defaults = map[string]*Contract{}
	}
	eng.defaults[key] = ct
	return ct
}

// specSCC: strongly connected components of the call graph among specification functions (recursive groups use the
// limited copies of each other, so that mutual recursion does not create a matching loop)
func (eng *Engine) specSCC(name string) int {
	if eng.sccOf == nil {
		eng.sccOf = map[string]int{}
		// call graph by syntactic scan
		calls := map[string][]string{}
		byShort := map[string][]string{}
		for full := range eng.specs {
			short := full[strings.LastIndex(full, ".")+1:]
			byShort[short] = append(byShort[short], full)
		}
		for full, sf := range eng.specs {
			pkgPrefix := full[:strings.LastIndex(full, ".")+1]
			ast.Inspect(sf.decl.Body, func(n ast.Node) bool {
				if ce, ok := n.(*ast.CallExpr); ok {
					switch f := ce.Fun.(type) {
					case *ast.Ident:
						if _, ok := eng.specs[pkgPrefix+f.Name]; ok {
							calls[full] = append(calls[full], pkgPrefix+f.Name)
						}
					case *ast.SelectorExpr:
						for _, cand := range byShort[f.Sel.Name] {
							calls[full] = append(calls[full], cand)
						}
					}
				}
				return true
			})
		}
		// the properties a specification function states (its ensures) may mention other specification functions: proving
		// them may rely on those functions' exported properties, so such references count as dependencies as well
		wordRe := regexp.MustCompile(`[A-Za-z_][A-Za-z0-9_]*`)
		for full, sf := range eng.specs {
			if sf.ct == nil {
				continue
			}
			pkgPrefix := full[:strings.LastIndex(full, ".")+1]
			for _, cls := range [][]*Clause{sf.ct.Ensures, sf.ct.Requires, sf.ct.Uses} {
				for _, cl := range cls {
					for _, w := range wordRe.FindAllString(cl.Text, -1) {
						if _, ok := eng.specs[pkgPrefix+w]; ok && pkgPrefix+w != full {
							calls[full] = append(calls[full], pkgPrefix+w)
						} else if !ok {
							for _, cand := range byShort[w] {
								if cand != full && !strings.HasPrefix(cand, pkgPrefix) {
									calls[full] = append(calls[full], cand)
								}
							}
						}
					}
				}
			}
		}
		// reachability-based SCC (small graphs)
		reach := func(from string) map[string]bool {
			seen := map[string]bool{}
			var st []string
			st = append(st, calls[from]...)
			for len(st) > 0 {
				x := st[len(st)-1]
				st = st[:len(st)-1]
				if seen[x] {
					continue
				}
				seen[x] = true
				st = append(st, calls[x]...)
			}
			return seen
		}
		rs := map[string]map[string]bool{}
		var names []string
		for full := range eng.specs {
			rs[full] = reach(full)
			names = append(names, full)
		}
		sort.Strings(names)
		id := 0
		for _, a := range names {
			if _, done := eng.sccOf[a]; done {
				continue
			}
			id++
			eng.sccOf[a] = id
			for _, b := range names {
				if a != b && rs[a][b] && rs[b][a] {
					eng.sccOf[b] = id
				}
			}
		}
	}
	return eng.sccOf[name]
}

func (eng *Engine) specFunc(full string) *specFn { return eng.specs[full] }

func (eng *Engine) specBySSA(fn *ssa.Function) *specFn {
	if fn.Object() == nil {
		return nil
	}
	if f, ok := fn.Object().(*types.Func); ok {
		return eng.specs[f.FullName()]
	}
	return nil
}

func (eng *Engine) pkgByPath(path string) *types.Package {
	if p, ok := eng.allPkgs[path]; ok {
		return p.Types
	}
	return nil
}

// packageByName resolves an import name as seen from package from (imports of from, by name)
func (eng *Engine) packageByName(name string, from *types.Package) *types.Package {
	if from != nil {
		for _, imp := range from.Imports() {
			if imp.Name() == name {
				return imp
			}
		}
	}
	var found *types.Package
	for _, p := range eng.allPkgs {
		if p.Name == name {
			if found != nil && found != p.Types {
				// ambiguous: prefer repository packages
				if strings.HasPrefix(p.PkgPath, repoModule) {
					found = p.Types
				}
				continue
			}
			found = p.Types
		}
	}
	return found
}

type sigInfo struct {
	recv     *types.Var
	params   *types.Tuple
	results  *types.Tuple
	freeVars []*ssa.FreeVar
}

func (eng *Engine) signatureFor(ct *Contract, fn *ssa.Function) *sigInfo {
	if fn != nil {
		s := fn.Signature
		si := &sigInfo{recv: s.Recv(), params: s.Params(), results: s.Results(), freeVars: fn.FreeVars}
		return si
	}
	if ct.FnType && strings.HasPrefix(ct.FnParam, "result:") {
		if f := eng.fnByKey[ct.FnParamOf]; f != nil {
			rn := ct.FnParam[len("result:"):]
			rs := f.Signature.Results()
			for i := 0; i < rs.Len(); i++ {
				if rs.At(i).Name() == rn || fmt.Sprintf("result%d", i) == rn {
					if s, ok := rs.At(i).Type().Underlying().(*types.Signature); ok {
						var pk *types.Package
						if f.Pkg != nil {
							pk = f.Pkg.Pkg
						}
						return &sigInfo{recv: types.NewVar(token.NoPos, pk, "self", rs.At(i).Type()), params: s.Params(), results: s.Results()}
					}
				}
			}
		}
		return nil
	}
	if ct.FnType && ct.FnParam != "" {
		if f := eng.fnByKey[ct.FnParamOf]; f != nil {
			for _, p := range f.Params {
				if p.Name() == ct.FnParam {
					if s, ok := p.Type().Underlying().(*types.Signature); ok {
						var pk *types.Package
						if f.Pkg != nil {
							pk = f.Pkg.Pkg
						}
						return &sigInfo{recv: types.NewVar(token.NoPos, pk, "self", p.Type()), params: s.Params(), results: s.Results()}
					}
				}
			}
		}
		return nil
	}
	if ct.FnType {
		// contract of a named function type: key "type pkg.T"; self is the function value
		parts := strings.Split(strings.TrimPrefix(ct.Key, "type "), ".")
		if p := eng.pkgByPath(ct.PkgPath); p != nil && len(parts) == 2 {
			if obj := p.Scope().Lookup(parts[1]); obj != nil {
				if s, ok := obj.Type().Underlying().(*types.Signature); ok {
					return &sigInfo{recv: types.NewVar(token.NoPos, p, "self", obj.Type()), params: s.Params(), results: s.Results()}
				}
			}
		}
		return nil
	}
	// interface method contract: key "pkg.Iface.Method"
	parts := strings.Split(ct.Key, ".")
	if len(parts) == 3 {
		if p := eng.pkgByPath(ct.PkgPath); p != nil {
			if obj := p.Scope().Lookup(parts[1]); obj != nil {
				if it, ok := obj.Type().Underlying().(*types.Interface); ok {
					for i := 0; i < it.NumMethods(); i++ {
						if it.Method(i).Name() == parts[2] {
							s := it.Method(i).Type().(*types.Signature)
							return &sigInfo{recv: types.NewVar(token.NoPos, p, "self", obj.Type()), params: s.Params(), results: s.Results()}
						}
					}
				}
			}
		}
	}
	return nil
}

func (eng *Engine) fnparamContract(a *Act, v ssa.Value) *Contract { return nil }

// fnTypeContract: the contract declared for a named function type ("contract type T"): what every value of that type that
// is not a known function of the library is assumed to do (user-supplied modifiers, handlers, ...)
func (eng *Engine) fnTypeContract(t types.Type) *Contract {
	n, ok := t.(*types.Named)
	if !ok {
		return nil
	}
	if _, isSig := n.Underlying().(*types.Signature); !isSig {
		return nil
	}
	return eng.contracts["type "+shortName(n.String())]
}

func (eng *Engine) sameSCC(a, b *ssa.Function) bool { return true }

// concreteTypes: all named non-interface types (and their pointers) declared in repository packages, uio, and a few std packages
func (eng *Engine) concreteTypes() []types.Type {
	if eng.concrete != nil {
		return eng.concrete
	}
	var paths []string
	for p := range eng.allPkgs {
		paths = append(paths, p)
	}
	sort.Strings(paths)
	for _, path := range paths {
		p := eng.allPkgs[path]
		if !strings.HasPrefix(path, repoModule) && path != "net" && path != "errors" && path != "fmt" && path != "encoding/binary" && !strings.HasPrefix(path, "github.com/u-root/uio") {
			continue
		}
		sc := p.Types.Scope()
		for _, n := range sc.Names() {
			tn, ok := sc.Lookup(n).(*types.TypeName)
			if !ok || tn.IsAlias() {
				continue
			}
			t := tn.Type()
			if _, isI := t.Underlying().(*types.Interface); isI {
				continue
			}
			if nt, ok := t.(*types.Named); ok && nt.TypeParams().Len() > 0 {
				continue
			}
			eng.concrete = append(eng.concrete, t, types.NewPointer(t))
		}
	}
	return eng.concrete
}

func (eng *Engine) implementations(it types.Type, m *types.Func) []impl {
	key := it.String() + "." + m.Name()
	if v, ok := eng.implCache[key]; ok {
		return v
	}
	iface, ok := it.Underlying().(*types.Interface)
	if !ok {
		return nil
	}
	var out []impl
	for _, t := range eng.concreteTypes() {
		if !types.Implements(t, iface) {
			continue
		}
		// skip pointer types whose base type already implements (method values via wrapper); keep both: dynamic type matters
		sel := eng.prog.MethodSets.MethodSet(t).Lookup(m.Pkg(), m.Name())
		if sel == nil {
			continue
		}
		fn := eng.prog.MethodValue(sel)
		if fn == nil {
			continue
		}
		out = append(out, impl{t, fn})
	}
	eng.implCache[key] = out
	return out
}

// ---------- static write summaries ----------

func rootsFresh(v ssa.Value, seen map[ssa.Value]bool) bool {
	if seen[v] {
		return true
	}
	seen[v] = true
	switch x := v.(type) {
	case *ssa.Alloc, *ssa.MakeSlice, *ssa.MakeMap:
		return true
	case *ssa.Const:
		return x.Value == nil
	case *ssa.Phi:
		for _, e := range x.Edges {
			if !rootsFresh(e, seen) {
				return false
			}
		}
		return true
	case *ssa.Slice:
		return rootsFresh(x.X, seen)
	case *ssa.FieldAddr:
		return rootsFresh(x.X, seen)
	case *ssa.IndexAddr:
		return rootsFresh(x.X, seen)
	case *ssa.Convert:
		if isString(x.X.Type()) {
			return true
		}
	case *ssa.Call:
		if b, ok := x.Call.Value.(*ssa.Builtin); ok && b.Name() == "append" {
			return rootsFresh(x.Call.Args[0], seen)
		}
		// results that a verified contract declares fresh
		if f, ok := x.Call.Value.(*ssa.Function); ok && theEngine != nil {
			if ct := theEngine.contractFor(f); ct != nil {
				for _, en := range ct.Ensures {
					if strings.Contains(en.Text, "fresh(result)") {
						return true
					}
				}
			}
		}
	case *ssa.UnOp:
		// pointer loaded from a field of a fresh object that was set by a fresh-returning constructor is not tracked
	}
	return false
}

var theEngine *Engine

func (eng *Engine) instrWrites(in ssa.Instruction, w map[string]bool, stack map[*ssa.Function]bool) {
	switch x := in.(type) {
	case *ssa.Store:
		if !rootsFresh(x.Addr, map[ssa.Value]bool{}) {
			typeKinds(x.Val.Type(), w)
		} else {
			// stores to locals: local cells are modelled in the heap too
			typeKinds(x.Val.Type(), w)
		}
	case *ssa.MapUpdate:
		w["MD"] = true
		mt := x.Map.Type().Underlying().(*types.Map)
		if slots(mt.Elem()) == 1 {
			w["M"+kindOf(mt.Elem())] = true
		}
	case *ssa.Alloc, *ssa.MakeSlice, *ssa.MakeMap, *ssa.MakeChan, *ssa.MakeClosure:
		w["ALLOC"] = true
	case *ssa.MakeInterface:
		switch x.X.Type().Underlying().(type) {
		case *types.Struct, *types.Array:
			w["ALLOC"] = true
			typeKinds(x.X.Type(), w)
		}
	case *ssa.Convert:
		if isString(x.X.Type()) {
			if _, ok := x.Type().Underlying().(*types.Slice); ok {
				w["ALLOC"] = true
				w["I"] = true
			}
		}
	case *ssa.Call:
		eng.callWrites(x.Common(), w, stack)
	case *ssa.Defer:
		eng.callWrites(x.Common(), w, stack)
	case *ssa.Go:
		w["ALL"] = true
	case *ssa.Send, *ssa.Select:
		w["ALL"] = true
	case *ssa.UnOp:
		if x.Op == token.ARROW {
			w["ALL"] = true
		}
	}
}

func (eng *Engine) callWrites(c *ssa.CallCommon, w map[string]bool, stack map[*ssa.Function]bool) {
	if c.IsInvoke() {
		key := fmt.Sprintf("%s.%s", shortName(c.Value.Type().String()), c.Method.Name())
		if ct := eng.contracts[key]; ct != nil && ct.ModifiesNothing() {
			w["ALLOC"] = true
			return
		}
		if eng.isPureExtern(key) {
			w["ALLOC"] = true
			return
		}
		if impls := eng.implementations(c.Value.Type(), c.Method); len(impls) > 0 && len(impls) <= eng.dispatchLimit {
			for _, im := range impls {
				eng.fnWrites(im.fn, w, stack)
			}
			return
		}
		w["ALL"] = true
		return
	}
	switch fn := c.Value.(type) {
	case *ssa.Builtin:
		switch fn.Name() {
		case "append":
			w["ALLOC"] = true
			typeKinds(c.Args[0].Type().Underlying().(*types.Slice).Elem(), w)
		case "copy":
			typeKinds(c.Args[0].Type().Underlying().(*types.Slice).Elem(), w)
		case "delete":
			w["MD"] = true
		case "close":
			w["ALL"] = true
		}
	case *ssa.Function:
		eng.fnWrites(fn, w, stack)
	case *ssa.MakeClosure:
		eng.fnWrites(fn.Fn.(*ssa.Function), w, stack)
	default:
		if eng.assumePureDynamic {
			w["ALLOC"] = true
		} else {
			w["ALL"] = true
		}
	}
}

func (eng *Engine) fnWrites(fn *ssa.Function, w map[string]bool, stack map[*ssa.Function]bool) {
	name := shortFn(fn)
	if _, ok := externs[name]; ok {
		if ew, ok := externWrites[name]; ok {
			for _, k := range ew {
				w[k] = true
			}
		} else {
			w["ALLOC"] = true
		}
		return
	}
	if eng.specBySSA(fn) != nil {
		return
	}
	if ct := eng.contractFor(fn); ct != nil && !ct.Inline {
		if ct.ModifiesNothing() {
			w["ALLOC"] = true
		} else {
			w["ALL"] = true
		}
		return
	}
	if eng.isPureExtern(name) {
		w["ALLOC"] = true
		return
	}
	if len(fn.Blocks) == 0 {
		w["ALL"] = true
		return
	}
	if !eng.inRepoOrUio(fn) && !eng.inlineExtern(name) {
		w["ALL"] = true
		return
	}
	if sum, ok := eng.writeSum[fn]; ok {
		for k := range sum {
			w[k] = true
		}
		return
	}
	if stack[fn] {
		w["ALL"] = true
		return
	}
	stack[fn] = true
	sum := map[string]bool{}
	for _, b := range fn.Blocks {
		for _, in := range b.Instrs {
			eng.instrWrites(in, sum, stack)
		}
	}
	delete(stack, fn)
	eng.writeSum[fn] = sum
	for k := range sum {
		w[k] = true
	}
}

// bodyWrites: heap kinds written or allocated by the body of fn itself (its own contract is ignored, callee contracts are used)
func (eng *Engine) bodyWrites(fn *ssa.Function) map[string]bool {
	if s, ok := eng.bodySum[fn]; ok {
		return s
	}
	sum := map[string]bool{}
	stack := map[*ssa.Function]bool{fn: true}
	for _, b := range fn.Blocks {
		for _, in := range b.Instrs {
			eng.instrWrites(in, sum, stack)
		}
	}
	if eng.bodySum == nil {
		eng.bodySum = map[*ssa.Function]map[string]bool{}
	}
	eng.bodySum[fn] = sum
	return sum
}

// effectFree: the function writes only memory it allocated itself (static over-approximation)
func (eng *Engine) effectFree(fn *ssa.Function) bool {
	if len(fn.Blocks) == 0 {
		return false
	}
	if !eng.inRepoOrUio(fn) {
		return false
	}
	return eng.effectFreeRec(fn, map[*ssa.Function]bool{})
}

func (eng *Engine) effectFreeRec(fn *ssa.Function, stack map[*ssa.Function]bool) bool {
	if stack[fn] {
		return true
	}
	stack[fn] = true
	defer delete(stack, fn)
	for _, b := range fn.Blocks {
		for _, in := range b.Instrs {
			switch x := in.(type) {
			case *ssa.Store:
				if _, isAlloc := x.Addr.(*ssa.Alloc); isAlloc {
					continue
				}
				if !rootsFresh(x.Addr, map[ssa.Value]bool{}) {
					return false
				}
			case *ssa.MapUpdate:
				if !rootsFresh(x.Map, map[ssa.Value]bool{}) {
					return false
				}
			case *ssa.Go, *ssa.Send, *ssa.Select, *ssa.Defer:
				return false
			case *ssa.Call:
				c := x.Common()
				if c.IsInvoke() {
					key := fmt.Sprintf("%s.%s", shortName(c.Value.Type().String()), c.Method.Name())
					if ct := eng.contracts[key]; ct != nil && ct.ModifiesNothing() {
						continue
					}
					if eng.isPureExtern(key) {
						continue
					}
					return false
				}
				switch f := c.Value.(type) {
				case *ssa.Builtin:
					switch f.Name() {
					case "append":
						if !rootsFresh(c.Args[0], map[ssa.Value]bool{}) {
							return false
						}
					case "copy":
						if !rootsFresh(c.Args[0], map[ssa.Value]bool{}) {
							return false
						}
					case "delete", "close":
						return false
					}
				case *ssa.Function:
					name := shortFn(f)
					if _, ok := externs[name]; ok {
						if len(externWrites[name]) > 0 {
							return false
						}
						continue
					}
					if eng.specBySSA(f) != nil || eng.isPureExtern(name) {
						continue
					}
					if ct := eng.contractFor(f); ct != nil {
						if ct.ModifiesNothing() {
							continue
						}
						if ct.ModifiesAll {
							return false
						}
						// modifies targets rooted in a parameter whose argument is a fresh local object
						okAll := true
						for _, m := range ct.Modifies {
							root := m.Text
							for i, ch := range root {
								if !(ch == '_' || ch >= 'a' && ch <= 'z' || ch >= 'A' && ch <= 'Z' || ch >= '0' && ch <= '9') {
									root = root[:i]
									break
								}
							}
							idx := -1
							for i, p := range f.Params {
								if p.Name() == root {
									idx = i
								}
							}
							if idx < 0 || idx >= len(c.Args) || !rootsFresh(c.Args[idx], map[ssa.Value]bool{}) {
								okAll = false
							}
						}
						if okAll {
							continue
						}
						return false
					}
					if len(f.Blocks) == 0 || !eng.inRepoOrUio(f) {
						return false
					}
					// callee may write through pointer parameters that we pass fresh memory to; conservative: require effect-free callee
					if !eng.effectFreeRec(f, stack) {
						return false
					}
				default:
					return false
				}
			}
		}
	}
	return true
}

func (eng *Engine) globalReassigned(gl *ssa.Global) bool {
	if eng.reassigned == nil {
		eng.reassigned = map[*ssa.Global]bool{}
		for fn := range eng.allFns {
			isInit := fn.Name() == "init" || strings.HasPrefix(fn.Name(), "init#")
			for _, b := range fn.Blocks {
				for _, in := range b.Instrs {
					st, ok := in.(*ssa.Store)
					if !ok {
						continue
					}
					// any store whose address is derived from a global
					root := st.Addr
					for {
						switch x := root.(type) {
						case *ssa.FieldAddr:
							root = x.X
							continue
						case *ssa.IndexAddr:
							root = x.X
							continue
						}
						break
					}
					if g, ok := root.(*ssa.Global); ok && !isInit {
						eng.reassigned[g] = true
					}
				}
			}
		}
	}
	return eng.reassigned[gl]
}

// ---------- initial values of immutable package-level variables ----------

type globalInitFact struct {
	slot int
	kind string
	term string
}

// globalInit: constant stores performed by the package initialiser into gl (only used when gl is never written elsewhere)
func (eng *Engine) globalInit(gl *ssa.Global) []globalInitFact {
	if eng.ginit == nil {
		eng.ginit = map[*ssa.Global][]globalInitFact{}
		g := &Gen{eng: eng, structs: map[string]string{}, strConst: map[string]string{}}
		for fn := range eng.allFns {
			if !(fn.Name() == "init" || strings.HasPrefix(fn.Name(), "init#")) {
				continue
			}
			for _, b := range fn.Blocks {
				for _, in := range b.Instrs {
					st, ok := in.(*ssa.Store)
					if !ok {
						continue
					}
					c, ok := st.Val.(*ssa.Const)
					if !ok || c.Value == nil {
						continue
					}
					if isString(c.Type()) {
						continue
					}
					slot := 0
					addr := st.Addr
					okAddr := true
					for okAddr {
						switch x := addr.(type) {
						case *ssa.IndexAddr:
							k, isC := constInt(x.Index)
							pt, isP := x.X.Type().Underlying().(*types.Pointer)
							if !isC || !isP {
								okAddr = false
								break
							}
							arr := pt.Elem().Underlying().(*types.Array)
							slot += int(k.Int64()) * slots(arr.Elem())
							addr = x.X
							continue
						case *ssa.FieldAddr:
							stt := x.X.Type().Underlying().(*types.Pointer).Elem().Underlying().(*types.Struct)
							slot += fieldSlot(stt, x.Field)
							addr = x.X
							continue
						}
						break
					}
					gg, isG := addr.(*ssa.Global)
					if !okAddr || !isG {
						continue
					}
					eng.ginit[gg] = append(eng.ginit[gg], globalInitFact{slot, kindOf(c.Type()), g.constTerm(c)})
				}
			}
		}
	}
	return eng.ginit[gl]
}

// referencedGlobals: globals mentioned by fn or by functions it calls statically (bounded depth)
func (eng *Engine) referencedGlobals(fn *ssa.Function, depth int, seen map[*ssa.Function]bool, out map[*ssa.Global]bool) {
	if seen[fn] || depth > 6 {
		return
	}
	seen[fn] = true
	var ops []*ssa.Value
	for _, b := range fn.Blocks {
		for _, in := range b.Instrs {
			ops = in.Operands(ops[:0])
			for _, o := range ops {
				if o == nil || *o == nil {
					continue
				}
				switch x := (*o).(type) {
				case *ssa.Global:
					out[x] = true
				case *ssa.Function:
					if eng.inRepoOrUio(x) {
						eng.referencedGlobals(x, depth+1, seen, out)
					}
				}
			}
		}
	}
}


// singleAssignmentCell: the local variable behind this Alloc is written exactly once (its initialisation) in its function
// and never in the closures that capture it: its content is a constant of the activation (captured parameters like c,
// ctx, match in the clients' SendAndRead). Only one-slot variables.
func (eng *Engine) singleAssignmentCell(al *ssa.Alloc) bool {
	if eng.sacCache == nil {
		eng.sacCache = map[*ssa.Alloc]bool{}
	}
	if v, ok := eng.sacCache[al]; ok {
		return v
	}
	res := func() bool {
		et := al.Type().Underlying().(*types.Pointer).Elem()
		if slots(et) != 1 || kindOf(et) == "" {
			return false
		}
		n := 0
		var scan func(fn *ssa.Function, cell ssa.Value, depth int) bool
		scan = func(fn *ssa.Function, cell ssa.Value, depth int) bool {
			if depth > 4 || cell.Referrers() == nil {
				return false
			}
			for _, r := range *cell.Referrers() {
				switch x := r.(type) {
				case *ssa.Store:
					if x.Addr == cell {
						n++
					} else {
						return false // the address itself is stored somewhere
					}
				case *ssa.UnOp, *ssa.DebugRef:
				case *ssa.MakeClosure:
					cf := x.Fn.(*ssa.Function)
					for i, b := range x.Bindings {
						if b == cell {
							if i >= len(cf.FreeVars) || !scan(cf, cf.FreeVars[i], depth+1) {
								return false
							}
						}
					}
				default:
					return false // address escapes (call argument, phi, ...)
				}
			}
			return true
		}
		if !scan(al.Parent(), al, 0) {
			return false
		}
		return n == 1
	}()
	eng.sacCache[al] = res
	return res
}
