package main

import (
	"fmt"
	"go/types"
	"regexp"

	"golang.org/x/tools/go/ssa"
)

// Sequential model of virtual time and of the datagrams a function transmits (DESIGN 4.9, assumption A6), used by the
// contracts of the clients' retransmission code (C11, C12). All of it is ghost state kept in reserved cells of the heap:
//
//   now()         virtual clock. Only a blocking select lets time pass. time.After(d) returns a fresh channel with the
//                 ghost attribute fireAt = now+d. A blocking select over the channels c1..cn ends at some time t with
//                 now <= t, and t <= max(now, fireAt(ci)) for every timer ci among them (it cannot sleep past a timer
//                 it listens to); the case of a timer can be the one taken only if t >= its fireAt. Every other statement
//                 takes no virtual time.
//   sends()       number of datagrams handed to net.PacketConn.WriteTo so far; lastSentTo() / lastSent() destination and
//                 bytes of the most recent one; sentAt() the virtual time of the most recent one.
//
// A contract that mentions one of these is a contract about the ghost state: at a call through such a contract the cells
// are forgotten before the ensures are assumed (like a modifies target).
const (
	ghostChanRef  = "(- 999943)" // slot 0: number of values sent on channels; 1: the channel of the last one; 2, 3: the pointer sent
	ghostClockRef = "(- 999961)"
	ghostFireRef  = "(- 999959)"
	ghostTimerRef = "(- 999953)"
	ghostSendRef  = "(- 999949)"
	ghostLockRef  = "(- 999937)" // slot 0: number of mutexes locked and not yet unlocked by the function under verification
)

var chanWordRe = regexp.MustCompile(`\b(chsends|lastChan|lastChanValue)\(\)`)
var clockWordRe = regexp.MustCompile(`\bnow\(\)`)
var ioWordRe = regexp.MustCompile(`\b(sends|lastSentTo|lastSent|sentAt)\(\)`)

func (ct *Contract) mentions(re *regexp.Regexp) bool {
	if ct == nil {
		return false
	}
	lists := [][]*Clause{ct.Requires, ct.Ensures, ct.Lets}
	for _, ls := range ct.Loops {
		lists = append(lists, ls.Invariants, ls.Lets)
	}
	for _, c := range ct.Cuts {
		lists = append(lists, []*Clause{c.Cl})
	}
	for _, l := range lists {
		for _, c := range l {
			if re.MatchString(c.Text) {
				return true
			}
		}
	}
	return false
}

func (g *Gen) clockNow(st *State) string { return sel(st.H["G"], ghostClockRef, "0") }
func (g *Gen) sendsNow(st *State) string { return sel(st.H["G"], ghostSendRef, "0") }

func (g *Gen) setClock(st *State, t string) {
	st.H["G"] = g.def("HG", heapSort["G"], sto(st.H["G"], ghostClockRef, "0", t))
}

// ghostCallEffects: a callee used through a contract that talks about the clock / the transmissions: forget those cells
// (time does not run backwards, the counter does not decrease)
func (g *Gen) ghostCallEffects(ct *Contract, pre, st *State, reach string) {
	if ct.mentions(clockWordRe) {
		n := g.havoc("now", "Int")
		g.assumeIf(reach, fmt.Sprintf("(>= %s %s)", n, g.clockNow(pre)))
		g.setClock(st, n)
	}
	if ct.mentions(ioWordRe) {
		n := g.havoc("sends", "Int")
		g.assumeIf(reach, fmt.Sprintf("(>= %s %s)", n, g.sendsNow(pre)))
		st.H["G"] = g.def("HG", heapSort["G"], sto(sto(st.H["G"], ghostSendRef, "0", n), ghostSendRef, "1", g.havoc("sentat", "Int")))
		st.H["F"] = g.def("HF", heapSort["F"], sto(st.H["F"], ghostSendRef, "0", g.havoc("sentto", "Iface")))
		st.H["Q"] = g.def("HQ", heapSort["Q"], sto(st.H["Q"], ghostSendRef, "0", g.havoc("sent", "BSeq")))
	}
}

// ghostForget: at a loop head / hard cut the ghost cells are known only through the invariant (time and the counter do
// not go backwards)
func (g *Gen) ghostForget(stIn, st *State, reach string) {
	if g.topCt == nil {
		return
	}
	if g.topCt.mentions(clockWordRe) {
		n := g.havoc("now", "Int")
		g.assumeIf(reach, fmt.Sprintf("(>= %s %s)", n, g.clockNow(stIn)))
		g.setClock(st, n)
		// timers created before keep their attributes
		st.H["G"] = g.def("HG", heapSort["G"], fmt.Sprintf("(store (store %s %s (select %s %s)) %s (select %s %s))", st.H["G"], ghostFireRef, stIn.H["G"], ghostFireRef, ghostTimerRef, stIn.H["G"], ghostTimerRef))
	}
	if g.topCt.mentions(chanWordRe) {
		n := g.havoc("chsends", "Int")
		g.assumeIf(reach, fmt.Sprintf("(>= %s %s)", n, sel(stIn.H["G"], ghostChanRef, "0")))
		st.H["G"] = g.def("HG", heapSort["G"], sto(st.H["G"], ghostChanRef, "0", n))
	}
	if g.topCt.mentions(ioWordRe) {
		n := g.havoc("sends", "Int")
		g.assumeIf(reach, fmt.Sprintf("(>= %s %s)", n, g.sendsNow(stIn)))
		st.H["G"] = g.def("HG", heapSort["G"], sto(sto(st.H["G"], ghostSendRef, "0", n), ghostSendRef, "1", g.havoc("sentat", "Int")))
		st.H["F"] = g.def("HF", heapSort["F"], sto(st.H["F"], ghostSendRef, "0", g.havoc("sentto", "Iface")))
		st.H["Q"] = g.def("HQ", heapSort["Q"], sto(st.H["Q"], ghostSendRef, "0", g.havoc("sent", "BSeq")))
	}
}

// recordChanSend: a value was sent on channel ch
func (g *Gen) recordChanSend(a *Act, st *State, ch string, v ssa.Value) {
	cnt := fmt.Sprintf("(+ %s 1)", sel(st.H["G"], ghostChanRef, "0"))
	h := sto(sto(st.H["G"], ghostChanRef, "0", cnt), ghostChanRef, "1", ch)
	if _, isPtr := v.Type().Underlying().(*types.Pointer); isPtr {
		t := a.val(v)
		h = sto(sto(h, ghostChanRef, "2", fmt.Sprintf("(pref %s)", t)), ghostChanRef, "3", fmt.Sprintf("(poff %s)", t))
	}
	st.H["G"] = g.def("HG", heapSort["G"], h)
}

// recordSend: net.PacketConn.WriteTo(p, addr) was called
func (g *Gen) recordSend(st *State, p, addr string) {
	cnt := fmt.Sprintf("(+ %s 1)", g.sendsNow(st))
	bytes := fmt.Sprintf("(sofarr (select %s (sref %s)) (soff %s) (sllen %s))", st.H["I"], p, p, p)
	st.H["Q"] = g.def("HQ", heapSort["Q"], sto(st.H["Q"], ghostSendRef, "0", bytes))
	st.H["F"] = g.def("HF", heapSort["F"], sto(st.H["F"], ghostSendRef, "0", addr))
	st.H["G"] = g.def("HG", heapSort["G"], sto(sto(st.H["G"], ghostSendRef, "0", cnt), ghostSendRef, "1", g.clockNow(st)))
}

func init() {
	// time.After(d): a fresh timer channel that fires at now+d
	externs["time.After"] = func(a *Act, res ssa.Value, instr ssa.Instruction, args []string, st *State, reach string) bool {
		g := a.g
		if res == nil {
			return true
		}
		ct := res.Type().Underlying()
		ref := a.alloc(st, a.nm("timer"), objKey(ct))
		st.H["G"] = g.def("HG", heapSort["G"], sto(sto(st.H["G"], ghostFireRef, ref, fmt.Sprintf("(+ %s %s)", g.clockNow(st), args[0])), ghostTimerRef, ref, "1"))
		a.bind(res, ref)
		return true
	}
}

// selectModel: the blocking select of the time model (see above); received values are arbitrary well-formed values
func (a *Act) selectModel(in *ssa.Select, st *State, reach string) {
	g := a.g
	tup := in.Type().(*types.Tuple)
	idx := g.havoc(a.nm(in.Name()+"_idx"), "Int")
	lo := 0
	if !in.Blocking {
		lo = -1
	}
	g.assumeIf(reach, fmt.Sprintf("(and (<= %d %s) (< %s %d))", lo, idx, idx, len(in.States)))
	now := g.clockNow(st)
	t := now
	if in.Blocking {
		t = g.havoc(a.nm(in.Name()+"_t"), "Int")
		g.assumeIf(reach, fmt.Sprintf("(>= %s %s)", t, now))
		for i, s := range in.States {
			if s.Dir != types.RecvOnly {
				continue
			}
			c := a.val(s.Chan)
			isTimer := fmt.Sprintf("(= %s 1)", sel(st.H["G"], ghostTimerRef, c))
			fire := sel(st.H["G"], ghostFireRef, c)
			g.assumeIf(reach, fmt.Sprintf("(=> %s (<= %s (ite (>= %s %s) %s %s)))", isTimer, t, now, fire, now, fire))
			g.assumeIf(reach, fmt.Sprintf("(=> (and %s (= %s %d)) (>= %s %s))", isTimer, idx, i, t, fire))
		}
		g.setClock(st, t)
	}
	// a send case that is taken hands its value to the channel: ghost record (chsends(), lastChan(), lastChanValue())
	for i, s := range in.States {
		if s.Dir != types.SendOnly {
			continue
		}
		pre := st.H["G"]
		g.recordChanSend(a, st, a.val(s.Chan), s.Send)
		st.H["G"] = g.def("HG", heapSort["G"], fmt.Sprintf("(ite (= %s %d) %s %s)", idx, i, st.H["G"], pre))
	}
	vs := []string{idx, g.havoc(a.nm(in.Name()+"_recvok"), "Bool")}
	for i := 2; i < tup.Len(); i++ {
		n := g.havoc(a.nm(fmt.Sprintf("%s_r%d", in.Name(), i)), g.sortOf(tup.At(i).Type()))
		g.assumeIf(reach, rangeFact(tup.At(i).Type(), n))
		g.assumeIf(reach, g.heapValWF(tup.At(i).Type(), n, st))
		vs = append(vs, n)
	}
	a.setTuple(in, vs)
}

// Lock balance. Locks are no-ops for the state (A5), but a function that returns while still holding a mutex it took
// blocks every later user of that mutex: the number of Lock/RLock calls not yet matched by Unlock/RUnlock is a ghost
// counter; every return of the function under verification must find it where it was at entry, every loop iteration
// must leave it where it found it.
func (g *Gen) locksNow(st *State) string { return sel(st.H["G"], ghostLockRef, "0") }

var lockCallRe = regexp.MustCompile(`^\(\*sync\.(RW)?Mutex\)\.(R?Lock|R?Unlock)$`)

// usesLocks: fn (or a function literal in it, or a function of the repository it calls directly) locks or unlocks
func (eng *Engine) usesLocks(fn *ssa.Function, depth int) bool {
	for _, b := range fn.Blocks {
		for _, in := range b.Instrs {
			var cc *ssa.CallCommon
			switch x := in.(type) {
			case *ssa.Call:
				cc = &x.Call
			case *ssa.Defer:
				cc = &x.Call
			case *ssa.Go:
				cc = &x.Call
			}
			if cc == nil {
				continue
			}
			if callee := cc.StaticCallee(); callee != nil {
				if lockCallRe.MatchString(shortFn(callee)) {
					return true
				}
				if depth > 0 && eng.inRepo(callee) && eng.usesLocks(callee, depth-1) {
					return true
				}
			}
		}
	}
	return false
}
