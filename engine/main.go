package main

import (
	"encoding/json"
	"flag"
	"fmt"
	"os"
	"path/filepath"
	"regexp"
	"sort"
	"strings"
	"sync"
	"time"

	"golang.org/x/tools/go/ssa"
)

type TargetSpec struct {
	Fn      string   `json:"fn,omitempty"`      // exact short key, or "re:<regexp>" over short keys
	Sweep   []string `json:"sweep,omitempty"`   // package-name prefixes: every function of these packages (non-test, with a body)
	Exclude string   `json:"exclude,omitempty"` // regexp over short keys to exclude from a sweep
	Roots   []string `json:"roots,omitempty"`   // if set, the sweep is restricted to functions reachable from these keys
	Modes   string   `json:"modes"`
	Note    string   `json:"note,omitempty"`
	Dep     bool     `json:"dep,omitempty"`     // the target is a function of the uio dependency (verified against its pinned source)
	Specialize map[string][]string `json:"specialize,omitempty"` // parameter name -> function keys: verify once per function bound to that parameter
	Ghost   bool     `json:"ghost,omitempty"` // include functions declared in verif_*.go files (spec functions, lemmas, ghost clients)
}

type PropConfig struct {
	ID          string       `json:"id"`
	Title       string       `json:"title"`
	Targets     []TargetSpec `json:"targets"`
	TrustedBase []string     `json:"trusted_base"`
	Assumptions []string     `json:"assumptions"`
	Replay      *ReplaySpec  `json:"replay,omitempty"`
	TimeoutQuick    int      `json:"timeout_quick,omitempty"`
	TimeoutThorough int      `json:"timeout_thorough,omitempty"`
	PureDynamic bool         `json:"pure_dynamic,omitempty"`
}

type Finding struct {
	Property   string `json:"property"`
	Status     string `json:"status"` // known | fixed
	Obligation string `json:"obligation"` // exact name or prefix ending in '*'
	What       string `json:"what"`
	Input      string `json:"input,omitempty"`
	Commit     string `json:"commit,omitempty"`
	Demo       string `json:"demo,omitempty"`     // demonstration test (path under /verif) that fails while the defect exists
	DemoPkg    string `json:"demo_pkg,omitempty"` // package directory (under /repo) the demonstration belongs to
}

type Unclaimed struct {
	Property   string `json:"property"`
	Obligation string `json:"obligation"` // exact name or prefix ending in '*'
	Reason     string `json:"reason"`
}

func parseModes(s string) Modes {
	var m Modes
	for _, p := range strings.Split(s, ",") {
		switch strings.TrimSpace(p) {
		case "safety":
			m.Safety = true
		case "post":
			m.Post = true
		case "frame":
			m.Frame = true
		case "term":
			m.Termination = true
		case "probes":
			m.Probes = true
		case "nonnil":
			m.NonNilParams = true
		case "readonly":
			m.ReadOnly = true
		case "noalias":
			m.NoAlias = true
		}
	}
	return m
}

// matchName: pat is an obligation name in which '*' stands for any text (obligation names contain the source text of
// the statement they belong to; a pattern can leave that part open so that a renamed local does not change the match)
func matchName(pat, name string) bool {
	if !strings.Contains(pat, "*") {
		return pat == name
	}
	parts := strings.Split(pat, "*")
	if !strings.HasPrefix(name, parts[0]) {
		return false
	}
	rest := name[len(parts[0]):]
	for i := 1; i < len(parts); i++ {
		p := parts[i]
		if i == len(parts)-1 {
			return strings.HasSuffix(rest, p)
		}
		j := strings.Index(rest, p)
		if j < 0 {
			return false
		}
		rest = rest[j+len(p):]
	}
	return true
}

func main() {
	repo := flag.String("repo", "/repo", "repository directory")
	verif := flag.String("verif", "/verif", "verif directory")
	timeout := flag.Int("t", 0, "per-obligation solver timeout (s); 0 = by tier")
	workers := flag.Int("j", 16, "parallel solver processes")
	modesFlag := flag.String("modes", "safety,post,term,probes", "modes for the fn subcommand")
	keep := flag.Bool("keep", false, "keep the work directory with the SMT files")
	verbose := flag.Bool("v", false, "verbose")
	debugPanics := flag.Bool("debug-panics", false, "do not recover engine panics")
	flag.Parse()
	args := flag.Args()
	if len(args) < 1 {
		fmt.Fprintln(os.Stderr, "usage: govc [flags] check <Cxx> [quick|thorough] | fn <key-regexp> | list <regexp>")
		os.Exit(2)
	}
	eng := NewEngine(*repo, *verif)
	eng.debugPanics = *debugPanics
	eng.initExterns()
	t0 := time.Now()
	if err := eng.load([]string{"./..."}); err != nil {
		fmt.Fprintln(os.Stderr, "ENGINE ERROR:", err)
		os.Exit(2)
	}
	if *verbose {
		fmt.Printf("loaded + SSA in %.1fs: %d functions, %d contracts, %d spec functions\n", time.Since(t0).Seconds(), len(eng.allFns), len(eng.contracts), len(eng.specs))
	}
	switch args[0] {
	case "list":
		re := regexp.MustCompile(args[1])
		var ks []string
		for k := range eng.fnByKey {
			if re.MatchString(k) {
				ks = append(ks, k)
			}
		}
		sort.Strings(ks)
		for _, k := range ks {
			fmt.Println(k)
		}
	case "ssa":
		re := regexp.MustCompile(args[1])
		for _, k := range eng.sortedKeys() {
			if re.MatchString(k) && len(eng.fnByKey[k].Blocks) > 0 {
				eng.fnByKey[k].WriteTo(os.Stdout)
			}
		}
	case "fn":
		re := regexp.MustCompile(args[1])
		var fns []*ssa.Function
		for k, fn := range eng.fnByKey {
			if re.MatchString(k) && len(fn.Blocks) > 0 {
				fns = append(fns, fn)
			}
		}
		sort.Slice(fns, func(i, j int) bool { return shortFn(fns[i]) < shortFn(fns[j]) })
		to := *timeout
		if to == 0 {
			to = 10
		}
		run := eng.runTargets("adhoc", fns, func(*ssa.Function) Modes { m := parseModes(*modesFlag); m.Probes = true; return m }, time.Duration(to)*time.Second, *workers, *keep, *verbose)
		run.print(true)
		if run.nFailed > 0 {
			os.Exit(1)
		}
	case "check":
		tier := "quick"
		if len(args) > 2 {
			tier = args[2]
		}
		os.Exit(eng.checkProperty(args[1], tier, *timeout, *workers, *keep, *verbose))
	default:
		fmt.Fprintln(os.Stderr, "unknown command", args[0])
		os.Exit(2)
	}
}

// ---------- running a set of targets ----------

type Run struct {
	results  []*OblResult
	fnRes    []*FnResult
	nProved  int
	nFailed  int
	nProbeOK int
	nProbeBad int
	genTime  float64
	solveTime float64
	wall     float64
	dir      string
}

type vjob struct {
	fn    *ssa.Function
	modes Modes
	spec  map[string]*ssa.Function
}

func (eng *Engine) runTargets(tag string, fns []*ssa.Function, modesOf func(*ssa.Function) Modes, timeout time.Duration, workers int, keep, verbose bool) *Run {
	var vj []vjob
	for _, fn := range fns {
		vj = append(vj, vjob{fn, modesOf(fn), nil})
	}
	return eng.runJobs(tag, vj, timeout, workers, keep, verbose)
}

func (eng *Engine) runJobs(tag string, vjobs []vjob, timeout time.Duration, workers int, keep, verbose bool) *Run {
	run := &Run{}
	t0 := time.Now()
	dir := filepath.Join(eng.verifDir, "work", tag)
	os.RemoveAll(dir)
	os.MkdirAll(dir, 0o755)
	run.dir = dir
	type job struct {
		g   *Gen
		o   *Obl
		dir string
		idx int
	}
	var jobs []job
	for fi, vj := range vjobs {
		fn := vj.fn
		m := vj.modes
		eng.curModes = m
		eng.assumePureDynamic = eng.curPureDynamic
		fr := eng.verifyFunctionSpec(fn, m, vj.spec)
		run.fnRes = append(run.fnRes, fr)
		if fr.Err != "" {
			continue
		}
		fdir := filepath.Join(dir, fmt.Sprintf("f%03d_%s", fi, sanitize(fr.Fn)))
		os.MkdirAll(fdir, 0o755)
		for i := range fr.Gen.obls {
			jobs = append(jobs, job{fr.Gen, &fr.Gen.obls[i], fdir, i})
		}
	}
	run.genTime = time.Since(t0).Seconds()
	t1 := time.Now()
	results := make([]*OblResult, len(jobs))
	retried := 0
	var wg sync.WaitGroup
	sem := make(chan struct{}, workers)
	// phase 1: the reachability probes (short queries); phase 2: everything else, except postconditions at returns whose
	// probe was refuted (see below)
	for i, j := range jobs {
		if !j.o.probe {
			continue
		}
		wg.Add(1)
		go func(i int, j job) {
			defer wg.Done()
			sem <- struct{}{}
			defer func() { <-sem }()
			results[i] = eng.discharge(j.g, j.o, j.dir, j.idx, timeout, eng.crossCheck)
			results[i].gen = j.g
			results[i].dir = j.dir
			results[i].idx = j.idx
		}(i, j)
	}
	wg.Wait()
	deadReturn := map[string]bool{}
	const probeMark = ":PROBE:return-reachable:"
	for _, r := range results {
		if r != nil && r.Obl.probe && r.Status == "proved" {
			if i := strings.Index(r.Obl.name, probeMark); i >= 0 {
				deadReturn[r.Obl.name[:i]+"|"+r.Obl.name[i+len(probeMark):]] = true
			}
		}
	}
	atDeadReturn := func(o *Obl) bool {
		if o.kind != "post" {
			return false
		}
		i := strings.Index(o.name, ":post:") // name: <fn>:post:<label>:<return detail>
		if i < 0 {
			return false
		}
		rest := o.name[i+len(":post:"):]
		j := strings.Index(rest, ":")
		return j >= 0 && deadReturn[o.name[:i]+"|"+rest[j+1:]]
	}
	for i, j := range jobs {
		if j.o.probe {
			continue
		}
		if atDeadReturn(j.o) {
			// a return that is provably unreachable under the function's assumptions (its reachability probe was refuted:
			// assumptions and path condition are contradictory) satisfies every postcondition; the probe's refutation is the
			// proof (the postcondition's query has the same path condition and a superset of the assumptions)
			results[i] = &OblResult{Obl: j.o, Status: "proved", Solver: "unreachable-return", Answer: "unsat (reachability probe of this return refuted)", gen: j.g, dir: j.dir, idx: j.idx}
			continue
		}
		wg.Add(1)
		go func(i int, j job) {
			defer wg.Done()
			sem <- struct{}{}
			defer func() { <-sem }()
			to := timeout
			if eng.isUnclaimedName(j.o.name) && to > 3*time.Second {
				// listed in unclaimed.json (not claimed, reported as such whatever the outcome): a short attempt only
				to = 3 * time.Second
			}
			results[i] = eng.discharge(j.g, j.o, j.dir, j.idx, to, eng.crossCheck)
			results[i].gen = j.g
			results[i].dir = j.dir
			results[i].idx = j.idx
		}(i, j)
	}
	wg.Wait()
	// obligations that timed out get one more attempt, one at a time and with twice the time: a time-out under load
	// (sixteen solvers in parallel, other jobs on the machine) is not a verdict
	for i, j := range jobs {
		r := results[i]
		if r == nil || j.o.probe || r.Status != "timeout" || eng.isUnclaimedName(j.o.name) {
			continue
		}
		if retried >= 12 {
			break // a function that is really broken times out everywhere: do not spend minutes on it
		}
		retried++
		r2 := eng.discharge(j.g, j.o, j.dir, j.idx, 2*timeout, false)
		r2.gen, r2.dir, r2.idx = j.g, j.dir, j.idx
		r2.Attempts = append(append([]string{}, r.Attempts...), append([]string{"retry:"}, r2.Attempts...)...)
		results[i] = r2
	}
	run.solveTime = time.Since(t1).Seconds()
	run.results = results
	for _, r := range results {
		if r.Obl.probe {
			if r.Status == "proved" {
				run.nProbeBad++
			} else {
				run.nProbeOK++
			}
			continue
		}
		if r.Status == "proved" {
			run.nProved++
		} else {
			run.nFailed++
		}
	}
	run.wall = time.Since(t0).Seconds()
	if !keep && run.nFailed == 0 && run.nProbeBad == 0 {
		os.RemoveAll(dir)
	}
	return run
}

func (run *Run) print(all bool) {
	for _, fr := range run.fnRes {
		if fr.Err != "" {
			fmt.Printf("OUT-OF-REACH %s: %s\n", fr.Fn, fr.Err)
		}
		if all {
			var notes []string
			for n := range fr.Gen.notes {
				notes = append(notes, n)
			}
			sort.Strings(notes)
			for _, n := range notes {
				fmt.Printf("  note[%s]: %s\n", fr.Fn, n)
			}
		}
	}
	for _, r := range run.results {
		if r.Obl.probe {
			if r.Status == "proved" {
				fmt.Printf("VACUOUS    %s   (reachability probe was provable)\n", r.Obl.name)
			}
			continue
		}
		if r.Status != "proved" || all {
			fmt.Printf("%-8s %6.2fs %-10s %s   [%s:%d] %s %s\n", r.Status, r.Time, r.Solver, r.Obl.name, shortFile(r.Obl.pos.Filename), r.Obl.pos.Line, filepath.Base(r.File), strings.Join(r.Attempts, " "))
		}
	}
	fmt.Printf("obligations: %d proved, %d not proved; probes: %d ok, %d vacuous; gen %.1fs solve %.1fs wall %.1fs\n", run.nProved, run.nFailed, run.nProbeOK, run.nProbeBad, run.genTime, run.solveTime, run.wall)
}

func readJSON(path string, v interface{}) error {
	b, err := os.ReadFile(path)
	if err != nil {
		return err
	}
	return json.Unmarshal(b, v)
}
