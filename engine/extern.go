package main

import (
	"fmt"
	"go/ast"
	"go/types"
	"strings"

	"golang.org/x/tools/go/ssa"
)

// Built-in models of a few dependencies (assumed; listed in every evidence file). Everything else about the
// standard library is either a trusted contract in extern/*.contracts, a declared-pure function (result havoc,
// no effects), or unknown (heap havoc).

type externFn func(a *Act, res ssa.Value, instr ssa.Instruction, args []string, st *State, reach string) bool

var externs = map[string]externFn{}
var externWrites = map[string][]string{}

var defaultPure = []string{
	"fmt.Sprintf", "fmt.Sprint", "fmt.Sprintln", "fmt.Fprintf", "fmt.Println", "fmt.Printf",
	"strings.*", "bytes.Equal", "bytes.Compare", "bytes.HasPrefix", "bytes.Index", "bytes.IndexByte", "bytes.Contains",
	"strconv.*", "unicode.*", "utf8.*", "hex.EncodeToString", "hex.Dump",
	"(net.IP).String", "(net.IP).Equal", "(net.IP).IsUnspecified", "(net.IP).IsLoopback", "(net.IP).IsLinkLocalUnicast", "(net.IP).IsGlobalUnicast", "(net.IP).IsMulticast",
	"(net.IP).To4", "(net.IP).To16", "(net.IP).Mask", "(net.IP).DefaultMask",
	"(net.IPMask).Size", "(net.IPMask).String", "net.CIDRMask", "net.IPv4", "net.ParseIP", "net.ParseMAC", "net.IPv4Mask",
	"(net.HardwareAddr).String", "(*net.IPNet).String", "(*net.IPNet).Contains", "(*net.UDPAddr).String", "(*net.UDPAddr).Network",
	"(time.Duration).String", "(time.Duration).Seconds", "(time.Duration).Round", "(time.Duration).Truncate", "(time.Time).String", "(time.Time).Unix", "(time.Time).Sub", "(time.Time).Add", "time.Unix", "time.Since", "(time.Time).UTC", "(time.Time).Before", "(time.Time).After",
	"sort.SearchInts", "reflect.TypeOf", "reflect.DeepEqual", "(reflect.Type).String", "(*reflect.rtype).String",
	"time.Date", "time.Now", "(time.Duration).Nanoseconds", "(time.Duration).Milliseconds", "net.InterfaceByName", "(*net.Interface).Addrs", "net.Interfaces", "errors.Is", "errors.As", "errors.Unwrap", "error.Error", "fmt.Stringer.String",
	"(*strings.Builder).String", "(*strings.Builder).Len",
	"(*log.Logger).Printf", "(*log.Logger).Print", "(*log.Logger).Println", "log.Printf", "log.Print", "log.Println",
	"(*regexp.Regexp).FindStringSubmatch", "(*regexp.Regexp).MatchString", "(*regexp.Regexp).SubexpNames", "(*regexp.Regexp).FindAllStringSubmatch",
	"(*url.URL).String", "url.Parse", "(*url.URL).Hostname", "(*url.URL).Port",
	"binary.Size", "math.*", "bits.*", "rand.Read", "rand.ReadContext", "rand.Int", "rand.Intn", "rand.Uint32",
	"(uuid.UUID).String",
	"context.Context.Done", "context.Context.Err", "context.Context.Deadline", "context.Context.Value",
	// interface methods of the library whose implementations are all read-only: assumed here, and each implementation
	// is checked against "modifies nothing" by the C20 sweep
	"dhcpv6.longStringer.LongString", "(*bytes.Buffer).String", "(*bytes.Buffer).Len", "(*bytes.Buffer).WriteString", "(*bytes.Buffer).Write", "(*bytes.Buffer).WriteByte",
	"dhcpv6.Option.Code", "dhcpv6.Option.ToBytes", "dhcpv6.Option.String", "dhcpv6.Option.LongString",
	"dhcpv6.DUID.ToBytes", "dhcpv6.DUID.String", "dhcpv6.DUID.Equal", "dhcpv6.DUID.DUIDType",
	"dhcpv4.OptionValue.ToBytes", "dhcpv4.OptionValue.String", "dhcpv4.OptionCode.Code", "dhcpv4.OptionCode.String",
	"dhcpv6.NTPSuboption.Code", "dhcpv6.NTPSuboption.ToBytes", "dhcpv6.NTPSuboption.String",
	"(iana.Arch).String", "(iana.HWType).String", "(iana.StatusCode).String", "(iana.EnterpriseID).String",
}

var defaultInline = []string{
	"(binary.bigEndian).Uint16", "(binary.bigEndian).Uint32", "(binary.bigEndian).Uint64",
	"(binary.bigEndian).PutUint16", "(binary.bigEndian).PutUint32", "(binary.bigEndian).PutUint64",
	"(binary.littleEndian).Uint16", "(binary.littleEndian).Uint32", "(binary.littleEndian).PutUint16", "(binary.littleEndian).PutUint32",
	"bytes.NewBuffer", "(*bytes.Buffer).Bytes", "(*bytes.Buffer).Len",
}

func (eng *Engine) initExterns() {
	for _, p := range defaultPure {
		eng.pureExterns[p] = true
	}
	for _, p := range defaultInline {
		eng.inlineExterns[p] = true
	}
}

func init() {
	nonNilErr := func(a *Act, res ssa.Value, instr ssa.Instruction, args []string, st *State, reach string) bool {
		g := a.g
		n := g.havoc(a.nm("err"), "Iface")
		// a newly created error value: non-nil, and none of the package-level error variables (whose identities are
		// small numbers)
		g.assumeIf(reach, fmt.Sprintf("(and (not (= %s nilIface)) (not (= (itag %s) 0)) (is-bOpaque (ibox %s)) (> (ubOpaque (ibox %s)) 1000000))", n, n, n, n))
		if res != nil {
			a.bindResults(res, []string{n})
		}
		return true
	}
	// locks, wait groups and atomics: no effect on the program's memory in the sequential reading of a function (A5: what
	// other goroutines do under the lock is outside the claim)
	noop := func(a *Act, res ssa.Value, instr ssa.Instruction, args []string, st *State, reach string) bool {
		if res != nil {
			a.havocValue(res, reach, st)
		}
		return true
	}
	// locks: no effect on program state; the ghost counter of locks held by the function under verification goes up and
	// down (lock balance: a function returns with the locks it took released, see lockBalance in concur.go)
	lockOp := func(delta int) func(a *Act, res ssa.Value, instr ssa.Instruction, args []string, st *State, reach string) bool {
		return func(a *Act, res ssa.Value, instr ssa.Instruction, args []string, st *State, reach string) bool {
			g := a.g
			if g.trackLocks {
				st.H["G"] = g.def("HG", heapSort["G"], sto(st.H["G"], ghostLockRef, "0", fmt.Sprintf("(+ %s %d)", g.locksNow(st), delta)))
			}
			return true
		}
	}
	for _, n := range []string{"(*sync.Mutex).Lock", "(*sync.RWMutex).Lock", "(*sync.RWMutex).RLock"} {
		externs[n] = lockOp(1)
		externWrites[n] = []string{}
	}
	for _, n := range []string{"(*sync.Mutex).Unlock", "(*sync.RWMutex).Unlock", "(*sync.RWMutex).RUnlock"} {
		externs[n] = lockOp(-1)
		externWrites[n] = []string{}
	}
	for _, n := range []string{
		"(*sync.WaitGroup).Add", "(*sync.WaitGroup).Done", "(*sync.WaitGroup).Wait", "atomic.LoadUint32", "atomic.CompareAndSwapUint32", "atomic.StoreUint32", "atomic.AddUint32"} {
		externs[n] = noop
		externWrites[n] = []string{}
	}
	externs["fmt.Errorf"] = nonNilErr
	externs["errors.New"] = nonNilErr
	// net.PacketConn.ReadFrom(p []byte) (n int, addr net.Addr, err error): 0 <= n <= len(p); writes p's backing array
	externs["net.PacketConn.ReadFrom"] = func(a *Act, res ssa.Value, instr ssa.Instruction, args []string, st *State, reach string) bool {
		g := a.g
		p := args[1]
		n := g.havoc(a.nm("rf_n"), "Int")
		addr := g.havoc(a.nm("rf_addr"), "Iface")
		err := g.havoc(a.nm("rf_err"), "Iface")
		g.assumeIf(reach, fmt.Sprintf("(and (<= 0 %s) (<= %s (sllen %s)))", n, n, p))
		g.assumeIf(reach, g.heapValWF(types.NewInterfaceType(nil, nil), addr, st))
		newArr := g.havoc(a.nm("rf_buf"), "(Array Int Int)")
		g.assumeIf(reach, fmt.Sprintf("(forall ((i Int)) (! (and (<= 0 (select %s i)) (<= (select %s i) 255)) :pattern ((select %s i))))", newArr, newArr, newArr))
		a.frameOblige(instr, reach, fmt.Sprintf("(sref %s)", p), "PacketConn.ReadFrom buffer")
		st.H["I"] = g.def("HI", heapSort["I"], fmt.Sprintf("(store %s (sref %s) %s)", st.H["I"], p, newArr))
		if res != nil {
			a.bindResults(res, []string{n, addr, err})
		}
		return true
	}
	externWrites["net.PacketConn.ReadFrom"] = []string{"I"}
	// net.PacketConn.WriteTo on an underlying (environment) connection: reads the buffer, writes no program memory
	externs["net.PacketConn.WriteTo"] = func(a *Act, res ssa.Value, instr ssa.Instruction, args []string, st *State, reach string) bool {
		g := a.g
		p := args[1]
		n := g.havoc(a.nm("wt_n"), "Int")
		err := g.havoc(a.nm("wt_err"), "Iface")
		g.assumeIf(reach, fmt.Sprintf("(and (<= 0 %s) (<= %s (sllen %s)))", n, n, p))
		if g.topCt != nil && g.topCt.mentions(ioWordRe) {
			g.recordSend(st, p, args[2])
		}
		if res != nil {
			a.bindResults(res, []string{n, err})
		}
		return true
	}
	externWrites["net.PacketConn.WriteTo"] = []string{}
	builderWrite := func(a *Act, res ssa.Value, instr ssa.Instruction, args []string, st *State, reach string) bool {
		g := a.g
		// (*strings.Builder).WriteString/WriteByte/Write/WriteRune: modifies the builder object only (assumed)
		a.safety("nil-deref", instr, reach, fmt.Sprintf("(not (= (pref %s) 0))", args[0]), "method call on nil *strings.Builder")
		a.frameOblige(instr, reach, fmt.Sprintf("(pref %s)", args[0]), "strings.Builder write")
		for _, k := range []string{"I", "L", "P"} {
			row := g.havoc(a.nm("sb_row"+k), fmt.Sprintf("(Array Int %s)", heapElemSort[k]))
			st.H[k] = g.def("H"+k, heapSort[k], fmt.Sprintf("(store %s (pref %s) %s)", st.H[k], args[0], row))
		}
		if res != nil {
			a.havocValue(res, reach, st)
		}
		return true
	}
	// sort.Slice(x, less): permutes the elements of the slice held by x in place (assumed); less is assumed read-only
	externs["sort.Slice"] = func(a *Act, res ssa.Value, instr ssa.Instruction, args []string, st *State, reach string) bool {
		g := a.g
		s := fmt.Sprintf("(ubSlice (ibox %s))", args[0])
		g.assumeIf(reach, fmt.Sprintf("(is-bSlice (ibox %s))", args[0]))
		cond := fmt.Sprintf("(or (<= (sllen %s) 1) (= (sref %s) 0) (>= (sref %s) %s))", s, s, s, g.entry.Next)
		if g.modset != nil {
			// element size unknown here (the slice is boxed in an interface): require the whole object to be a target
			cond = fmt.Sprintf("(or (<= (sllen %s) 1) (= (sref %s) 0) (>= (sref %s) %s) %s)", s, s, s, g.entry.Next, g.modsetR(fmt.Sprintf("(sref %s)", s), "", ""))
		}
		if g.checkFrame {
			g.oblige("frame", a.srcDetail(instr), reach, cond, a.pos(instr.Pos()), "sort.Slice reorders its argument in place: it must be memory allocated during the call or listed in modifies")
		}
		for _, k := range []string{"I", "B", "Q", "L", "P", "F", "R"} {
			row := g.havoc(a.nm("sorted_row"+k), fmt.Sprintf("(Array Int %s)", heapElemSort[k]))
			st.H[k] = g.def("H"+k, heapSort[k], fmt.Sprintf("(store %s (sref %s) %s)", st.H[k], s, row))
		}
		return true
	}
	externWrites["sort.Slice"] = []string{"I", "B", "Q", "L", "P", "F", "R"}
	for _, m := range []string{"WriteString", "WriteByte", "Write", "WriteRune", "Grow", "Reset"} {
		externs["(*strings.Builder)."+m] = builderWrite
		externWrites["(*strings.Builder)."+m] = []string{"I", "L", "P"}
	}
}

// ghostCall handles calls to ghost helpers declared in the verif files: verifAssert(b), verifAssume is NOT provided.
func (a *Act) ghostCall(res ssa.Value, instr ssa.Instruction, fn *ssa.Function, args []string, st *State, reach string) bool {
	g := a.g
	switch fn.Name() {
	case "verifAssert":
		if len(args) == 1 {
			g.oblige("assert", a.srcDetail(instr), reach, args[0], a.pos(instr.Pos()), "ghost assertion")
			g.assumeIf(reach, args[0])
			return true
		}
	}
	if fn.Name() == "specHas" && g.eng.inRepo(fn) && len(args) == 2 {
		if res != nil {
			a.bind(res, sel(st.H["MD"], args[0], args[1]))
		}
		return true
	}
	if fn.Name() == "specZeros" && g.eng.inRepo(fn) && len(args) == 1 {
		if res != nil {
			a.bind(res, fmt.Sprintf("(szeros %s)", args[0]))
		}
		return true
	}
	if fn.Name() == "specByte" && g.eng.inRepo(fn) && len(args) == 1 {
		if res != nil {
			a.bind(res, fmt.Sprintf("(sunit (mod %s 256))", args[0]))
		}
		return true
	}
	// specification functions called from ghost code (lemmas, ghost clients): application of the SMT function
	if sf := g.eng.specBySSA(fn); sf != nil && g.eng.inRepo(fn) {
		if a.top && a.fn == fn {
			return false
		}
		g.useSpec(sf)
		sig := fn.Signature
		var as []string
		for i, x := range args {
			pt := sig.Params().At(i).Type()
			if isSpecSeqType(pt) {
				x = fmt.Sprintf("(qofarr (select %s (sref %s)) (soff %s) (sllen %s))", st.H["Q"], x, x, x)
			}
			if isSpecMapType(pt) {
				x = fmt.Sprintf("(mkSMap (select %s %s) (select %s %s))", st.H["MD"], x, st.H["MQ"], x)
			}
			as = append(as, x)
		}
		app := fmt.Sprintf("(%s %s)", sf.smtName, strings.Join(as, " "))
		if len(as) == 0 {
			app = sf.smtName
		}
		rt := sig.Results().At(0).Type()
		if isSpecSeqType(rt) {
			// materialise as a fresh []string whose view is the spec value
			ref := a.alloc(st, a.nm("specres"), arrAlloc(tString))
			n := g.def(a.nm("specres_v"), "SSeq", app)
			g.assumeIf(reach, fmt.Sprintf("(= (qofarr (select %s %s) 0 (qlen %s)) %s)", st.H["Q"], ref, n, n))
			if res != nil {
				a.bind(res, fmt.Sprintf("(mkSlice %s 0 (qlen %s) (qlen %s))", ref, n, n))
			}
			return true
		}
		if res != nil {
			a.bind(res, app)
		}
		return true
	}
	return false
}

// applyLemma instantiates a proven lemma: `lemma(args)` -- requires become obligations, ensures become assumptions.
func (a *Act) applyLemma(u *Clause, st *State, phiEnv map[ssa.Value]string, reach string) {
	a.applyLemmaR(u, st, phiEnv, reach, nil)
}

// applyLemmaR: results != nil: the lemma is instantiated at a return of the function (its arguments may mention result)
func (a *Act) applyLemmaR(u *Clause, st *State, phiEnv map[ssa.Value]string, reach string, results []string) {
	g := a.g
	call, ok := u.Expr.(*ast.CallExpr)
	if !ok {
		panic(contractError{fmt.Sprintf("%s: use needs a lemma call", u.Where)})
	}
	id, ok := call.Fun.(*ast.Ident)
	if !ok {
		panic(contractError{fmt.Sprintf("%s: use needs a lemma name", u.Where)})
	}
	pkgName := ""
	if a.fn.Pkg != nil {
		pkgName = a.fn.Pkg.Pkg.Name()
	}
	key := pkgName + "." + id.Name
	ct := g.eng.contracts[key]
	fn := g.eng.fnByKey[key]
	if ct == nil || fn == nil {
		panic(contractError{fmt.Sprintf("%s: unknown lemma %s", u.Where, key)})
	}
	e := a.newEnv(st, phiEnv, results)
	var args []string
	specArg := map[int]bool{}
	var anyVars, anyRanges []string
	anyParams := map[int]bool{}
	func() {
		defer wrapClauseErr(u)
		for i, ax := range call.Args {
			// any(T): the lemma holds for every value of this parameter (it was proved for an arbitrary one): the
			// instantiation is universally quantified over it. Its requires must not mention that parameter.
			if ce, ok := ax.(*ast.CallExpr); ok {
				if fid, ok := ce.Fun.(*ast.Ident); ok && fid.Name == "any" && len(ce.Args) == 1 {
					t := e.evalType(ce.Args[0])
					bv := fmt.Sprintf("any_%d_%d", len(g.assumes), i)
					anyVars = append(anyVars, fmt.Sprintf("(%s %s)", bv, g.sortOf(t)))
					if rf := rangeFact(t, bv); rf != "" {
						anyRanges = append(anyRanges, rf)
					}
					anyParams[i] = true
					args = append(args, bv)
					continue
				}
			}
			v := e.value(e.eval(ax))
			if v.smap || v.spec {
				specArg[i] = true
			}
			args = append(args, v.term)
		}
	}()
	cs := &callSite{a: a, ct: ct, fn: fn, args: args, pre: st, specArg: specArg}
	for i, cl := range ct.Requires {
		for j, c := range cs.evalClause(cl, st, nil) {
			for _, av := range anyVars {
				name := strings.Fields(strings.Trim(av, "()"))[0]
				if strings.Contains(c, name) {
					panic(contractError{fmt.Sprintf("%s: lemma %s: a precondition depends on a parameter instantiated with any()", u.Where, key)})
				}
			}
			g.oblige("lemma-pre", fmt.Sprintf("%s:%s:%s", u.Where, key, clauseLabel(cl, i, j)), reach, c, a.pos(a.fn.Pos()), "precondition of lemma "+key+": "+cl.Text)
		}
	}
	cs.res = []string{}
	for _, cl := range ct.Ensures {
		for _, c := range cs.evalClause(cl, st, st) {
			if len(anyVars) > 0 {
				body := c
				if len(anyRanges) > 0 {
					body = fmt.Sprintf("(=> (and %s) %s)", strings.Join(anyRanges, " "), c)
				}
				c = fmt.Sprintf("(forall (%s) %s)", strings.Join(anyVars, " "), body)
			}
			g.assumeIf(reach, c)
		}
	}
}
