package main

import (
	"encoding/json"
	"context"
	"fmt"
	"os"
	"os/exec"
	"path/filepath"
	"strings"
	"sync"
	"sync/atomic"
	"time"
)

type Solver struct {
	Name string
	Cmd  []string // command; the query file is appended
}

var solvers = []Solver{
	{"z3-5.1.0", []string{"z3-new"}},
	// same solver with the legacy simplex arithmetic core: decides some goals mixing sequence terms and 64-bit
	// div/mod arithmetic that the default core times out on
	{"z3-5.1.0/arith2", []string{"z3-new", "smt.arith.solver=2"}},
	{"z3-4.8.12", []string{"z3"}},
	{"cvc5-1.0", []string{"cvc5", "--lang=smt2"}},
}

type OblResult struct {
	Obl      *Obl
	Status   string // proved | failed | timeout | error
	Solver   string
	Answer   string // raw first line of the deciding/last solver
	Time     float64
	File     string
	Model    string
	Attempts []string
	CrossConfirmed bool
	gen      *Gen
	dir      string
	idx      int
}

func (g *Gen) buildQuery(o *Obl, extraAssume string, wantModel bool, dropQuant bool) string {
	var sb strings.Builder
	if wantModel {
		sb.WriteString("(set-option :produce-models true)\n")
	}
	sb.WriteString(prelude)
	for _, l := range g.pre {
		sb.WriteString(l)
		sb.WriteString("\n")
	}
	sb.WriteString(g.typingTable())
	for _, l := range g.specDecl {
		sb.WriteString(l)
		sb.WriteString("\n")
	}
	n := o.outLen
	if n == 0 || n > len(g.out) {
		n = len(g.out)
	}
	for _, l := range g.out[:n] {
		if dropQuant && strings.Contains(l, "(forall ") {
			continue
		}
		sb.WriteString(l)
		sb.WriteString("\n")
	}
	for _, as := range g.assumes {
		if as.seq < o.seq && (o.cutSeq == 0 || as.seq < o.entrySeq || as.seq >= o.cutSeq) {
			if dropQuant && strings.Contains(as.term, "(forall ") {
				continue
			}
			sb.WriteString("(assert ")
			sb.WriteString(as.term)
			sb.WriteString(")\n")
		}
	}
	if extraAssume != "" {
		sb.WriteString("(assert " + extraAssume + ")\n")
	}
	sb.WriteString(fmt.Sprintf("(assert (not (=> %s %s)))\n(check-sat)\n", o.reach, o.cond))
	if wantModel {
		sb.WriteString("(get-model)\n")
	}
	return sb.String()
}

// provable: during generation, is reach => cond a consequence of what has been assumed so far? Used to resolve calls
// through function values (which closure is it?) before the obligations are generated. A "no" (or a timeout) only means
// that the general, case-splitting encoding is used instead.
func (g *Gen) provable(reach, cond string) bool {
	if g.dynGaveUp {
		// the proof context no longer determines the callees (typically after a call with unknown effects): stop asking
		return false
	}
	g.dynQueries++
	o := &Obl{seq: g.seq + 1, reach: reach, cond: cond, outLen: len(g.out), entrySeq: g.entrySeq, cutSeq: g.cutSeq}
	q := g.buildQuery(o, "", false, false)
	f, err := os.CreateTemp("", "govc-dyn-*.smt2")
	if err != nil {
		return false
	}
	defer os.Remove(f.Name())
	f.WriteString(q)
	f.Close()
	ans, _, dur := runSolver(solvers[0], f.Name(), 3*time.Second)
	if ans != "unsat" {
		g.dynUnknown++
	} else {
		g.dynUnknown = 0
	}
	if os.Getenv("GOVC_DYNDEBUG") != "" {
		fmt.Fprintf(os.Stderr, "dyn query %d: %s %.2fs (%d bytes) %s\n", g.dynQueries, ans, dur, len(q), cond[:min(len(cond), 60)])
	}
	return ans == "unsat"
}

func cvc5Compat(q string) string {
	// cvc5 does not know z3 options
	var out []string
	for _, l := range strings.Split(q, "\n") {
		if strings.HasPrefix(l, "(set-option :smt.") || strings.HasPrefix(l, "(set-option :auto_config") {
			continue
		}
		out = append(out, l)
	}
	return "(set-logic ALL)\n" + strings.Join(out, "\n")
}

func runSolver(s Solver, file string, timeout time.Duration) (answer string, out string, dur float64) {
	ctx, cancel := context.WithTimeout(context.Background(), timeout+2*time.Second)
	defer cancel()
	args := append([]string{}, s.Cmd[1:]...)
	switch s.Cmd[0] {
	case "z3", "z3-new":
		args = append(args, fmt.Sprintf("-T:%d", int(timeout.Seconds())))
	case "cvc5":
		args = append(args, fmt.Sprintf("--tlimit=%d", int(timeout.Milliseconds())))
	}
	args = append(args, file)
	t0 := time.Now()
	cmd := exec.CommandContext(ctx, s.Cmd[0], args...)
	b, _ := cmd.CombinedOutput()
	dur = time.Since(t0).Seconds()
	out = string(b)
	first := ""
	for _, ln := range strings.Split(strings.TrimSpace(out), "\n") {
		ln = strings.TrimSpace(ln)
		if ln == "" || strings.HasPrefix(ln, "WARNING:") {
			continue // solver warnings (e.g. an unusable pattern) precede the answer
		}
		first = ln
		break
	}
	switch {
	case first == "unsat" || first == "sat" || first == "unknown":
		answer = first
	case first == "" || strings.Contains(first, "timeout") || strings.Contains(out, "interrupted"):
		answer = "timeout"
	default:
		answer = "error: " + first
	}
	return
}

// discharge tries to prove one obligation with the solver portfolio.
func (eng *Engine) discharge(g *Gen, o *Obl, dir string, idx int, timeout time.Duration, allSolvers bool) *OblResult {
	res := &OblResult{Obl: o}
	base := filepath.Join(dir, fmt.Sprintf("o%04d", idx))
	q := g.buildQuery(o, "", false, false)
	file := base + ".smt2"
	os.WriteFile(file, []byte(q), 0o644)
	res.File = file
	t0 := time.Now()
	defer func() { res.Time = time.Since(t0).Seconds() }()
	defer func() {
		// cross-check (thorough): a different solver family must not contradict the proof
		if !allSolvers || o.probe || res.Status != "proved" {
			return
		}
		var other Solver
		if strings.HasPrefix(res.Solver, "z3-5.1.0") {
			other = solvers[2] // z3 4.8.12
		} else {
			other = solvers[0]
		}
		a, _, d := runSolver(other, file, 20*time.Second)
		res.Attempts = append(res.Attempts, fmt.Sprintf("cross-check %s:%s:%.2fs", other.Name, a, d))
		switch a {
		case "unsat":
			res.CrossConfirmed = true
		case "sat":
			res.Status = "error"
			res.Answer = "solver disagreement: " + res.Solver + " says unsat, " + other.Name + " says sat"
		}
	}()
	try := func(s Solver, f string, to time.Duration) string {
		ans, _, d := runSolver(s, f, to)
		res.Attempts = append(res.Attempts, fmt.Sprintf("%s:%s:%.2fs", s.Name, ans, d))
		return ans
	}
	if o.probe {
		// a reachability probe must NOT be provable; one quick attempt is enough (a dead return whose probe is not
		// refuted in that time has its postconditions attempted like any other; time-outs are retried, see runJobs)
		to := 3 * time.Second
		if to > timeout {
			to = timeout
		}
		ans := try(solvers[0], file, to)
		res.Answer, res.Solver = ans, solvers[0].Name
		if ans != "unsat" {
			// second opinion from a solver with a different quantifier engine (enumerative instantiation finds
			// inconsistencies that need a term nobody wrote down: it caught an unsound shape axiom over all interface
			// values that E-matching never instantiated badly)
			f := base + ".cvc5.smt2"
			os.WriteFile(f, []byte(cvc5Compat(q)), 0o644)
			if a2 := try(solvers[3], f, 1500*time.Millisecond); a2 == "unsat" {
				ans = a2
				res.Answer, res.Solver = a2, solvers[3].Name
			}
		}
		if ans == "unsat" {
			res.Status = "proved"
		} else {
			res.Status = "failed"
		}
		return res
	}
	// stage 0: the solver recorded (solver_hints.json, maintained with VERIF_WRITE_HINTS=1) as the one that decides this
	// obligation, when it is not the first of the portfolio: saves the time-outs of the ones before it
	if h := eng.solverHint(o.name); h != "" {
		for _, s := range solvers[1:] {
			if s.Name != h {
				continue
			}
			f := file
			if s.Cmd[0] == "cvc5" {
				f = base + ".cvc5.smt2"
				os.WriteFile(f, []byte(cvc5Compat(q)), 0o644)
			}
			if a := try(s, f, timeout); a == "unsat" {
				res.Status, res.Solver, res.Answer = "proved", s.Name, a
				return res
			}
		}
	}
	// stage 1: z3 5.1 short
	ans := try(solvers[0], file, timeout)
	res.Answer = ans
	res.Solver = solvers[0].Name
	if ans == "unsat" {
		res.Status = "proved"
		return res
	}
	if ans == "sat" {
		res.Status = "failed"
		return res
	}
	// stage 2: case splits declared in the contract
	if len(o.splitTerms) > 0 {
		allOK := true
		for si, sp := range o.splitTerms {
			for _, pol := range []string{sp, "(not " + sp + ")"} {
				f := fmt.Sprintf("%s.split%d%s.smt2", base, si, map[bool]string{true: "p", false: "n"}[pol == sp])
				os.WriteFile(f, []byte(g.buildQuery(o, pol, false, false)), 0o644)
				if a := try(solvers[0], f, timeout); a != "unsat" {
					allOK = false
				}
			}
			if allOK {
				res.Status = "proved"
				res.Solver = solvers[0].Name + "+split"
				res.Answer = "unsat"
				return res
			}
		}
	}
	// stage 3: other solvers
	for _, s := range solvers[1:] {
		f := file
		if s.Cmd[0] == "cvc5" {
			f = base + ".cvc5.smt2"
			os.WriteFile(f, []byte(cvc5Compat(q)), 0o644)
		}
		a := try(s, f, timeout)
		if a == "unsat" {
			res.Status = "proved"
			res.Solver = s.Name
			res.Answer = a
			return res
		}
		if a == "sat" {
			res.Status = "failed"
			res.Solver = s.Name
			res.Answer = a
			return res
		}
	}
	if strings.HasPrefix(ans, "error") {
		res.Status = "error"
	} else if ans == "timeout" {
		res.Status = "timeout"
	} else {
		res.Status = "failed" // unknown: quantified goal not provable
	}
	return res
}

// candidateModel re-asks with all quantified assertions dropped to obtain a candidate counterexample.
func (eng *Engine) candidateModel(g *Gen, o *Obl, dir string, idx int) string {
	f := filepath.Join(dir, fmt.Sprintf("o%04d.model.smt2", idx))
	os.WriteFile(f, []byte(dropQuantified(g.buildQuery(o, "", true, true))), 0o644)
	ans, out, _ := runSolver(solvers[0], f, 10*time.Second)
	if ans != "sat" {
		return ""
	}
	return out
}

func (eng *Engine) dischargeAll(g *Gen, dir string, timeout time.Duration, workers int) []*OblResult {
	os.MkdirAll(dir, 0o755)
	results := make([]*OblResult, len(g.obls))
	var wg sync.WaitGroup
	sem := make(chan struct{}, workers)
	var nfail int32
	for i := range g.obls {
		wg.Add(1)
		go func(i int) {
			defer wg.Done()
			sem <- struct{}{}
			defer func() { <-sem }()
			to := timeout
			if atomic.LoadInt32(&nfail) >= 12 && to > 2*time.Second {
				// the function is already reported as failing: the remaining obligations get a short attempt only (a
				// broken proof context makes hundreds of them undecidable, each costing the full portfolio otherwise)
				to = 2 * time.Second
			}
			if eng.isUnclaimedName(g.obls[i].name) && to > 3*time.Second {
				// listed in unclaimed.json (not claimed, reported as such whatever the outcome): a short attempt only
				to = 3 * time.Second
			}
			results[i] = eng.discharge(g, &g.obls[i], dir, i, to, false)
			if r := results[i]; r != nil && !g.obls[i].probe && r.Status != "proved" {
				atomic.AddInt32(&nfail, 1)
			}
		}(i)
	}
	wg.Wait()
	return results
}

var unclaimedOnce sync.Once
var unclaimedNames map[string]bool

func (eng *Engine) isUnclaimedName(name string) bool {
	unclaimedOnce.Do(func() {
		unclaimedNames = map[string]bool{}
		var us []Unclaimed
		readJSON(filepath.Join(eng.verifDir, "unclaimed.json"), &us)
		for _, u := range us {
			unclaimedNames[u.Obligation] = true
		}
	})
	if unclaimedNames[name] {
		return true
	}
	for pat := range unclaimedNames {
		if strings.Contains(pat, "*") && matchName(pat, name) {
			return true
		}
	}
	return false
}

var hintsOnce sync.Once
var hints map[string]string

// solverHint: performance hint only (which back end decided the obligation last time); never affects verdicts
func (eng *Engine) solverHint(name string) string {
	hintsOnce.Do(func() {
		hints = map[string]string{}
		if b, err := os.ReadFile(filepath.Join(eng.verifDir, "solver_hints.json")); err == nil {
			json.Unmarshal(b, &hints)
		}
	})
	return hints[name]
}

// writeHints (maintenance, VERIF_WRITE_HINTS=1): record the deciding back end of every obligation not decided by the first
func (eng *Engine) writeHints(results []*OblResult) {
	eng.solverHint("")
	for _, r := range results {
		if r == nil || r.Obl == nil || r.Obl.probe {
			continue
		}
		if r.Status == "proved" && r.Solver != solvers[0].Name && !strings.Contains(r.Solver, "+split") && r.Solver != "unreachable-return" {
			hints[r.Obl.name] = r.Solver
		} else if r.Status == "proved" {
			delete(hints, r.Obl.name)
		}
	}
	b, _ := json.MarshalIndent(hints, "", " ")
	os.WriteFile(filepath.Join(eng.verifDir, "solver_hints.json"), b, 0o644)
}

// dropQuantified removes every top-level form of an SMT-LIB script that contains a quantifier (S-expression level, so
// multi-line axioms of the prelude are handled). The result under-constrains the problem: a model of it is only a
// candidate counterexample.
func dropQuantified(q string) string {
	var out strings.Builder
	depth := 0
	start := -1
	inStr := false
	for i := 0; i < len(q); i++ {
		c := q[i]
		if inStr {
			if c == '"' {
				inStr = false
			}
			continue
		}
		switch c {
		case '"':
			inStr = true
		case ';':
			if depth == 0 {
				for i < len(q) && q[i] != '\n' {
					i++
				}
			}
		case '(':
			if depth == 0 {
				start = i
			}
			depth++
		case ')':
			depth--
			if depth == 0 && start >= 0 {
				form := q[start : i+1]
				if !strings.Contains(form, "(forall ") && !strings.Contains(form, "(exists ") {
					out.WriteString(form)
					out.WriteString("\n")
				}
				start = -1
			}
		}
	}
	return out.String()
}
