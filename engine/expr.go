package main

import (
	"regexp"
	"sort"
	"fmt"
	"go/ast"
	"go/constant"
	"go/token"
	"go/types"
	"math/big"
	"strconv"
	"strings"

	"golang.org/x/tools/go/ssa"
)

// tv is a typed value of the contract evaluator.
// For multi-slot values living in memory (structs, arrays) the value is an address (ref, off) and is loaded lazily.
type tv struct {
	term   string
	typ    types.Type // nil = untyped integer constant
	spec   bool       // []string spec-level sequence (SSeq)
	smap   bool       // map[K]string spec-level map (SMap)
	isAddr bool
	ref    string
	off    string
	isType bool
}

var tInt = types.Typ[types.Int]
var tBool = types.Typ[types.Bool]
var tString = types.Typ[types.String]
var tSSeq = types.NewSlice(tString)

// evalEnv is the context a contract expression is evaluated in.
type evalEnv struct {
	g       *Gen
	a       *Act // activation used for load/typing helpers
	st      *State
	old     *State
	names   func(name string, e *evalEnv) (tv, bool)
	bound   map[string]tv
	atCallSite bool // evaluating a callee's contract at a call site (own-proof-only builtins are not available)
	pkg     *types.Package
	entryNext string // allocation stamp at entry (for fresh())
	inOld   bool
	oldNames func(name string, e *evalEnv) (tv, bool)
	macroPkg string
	nquant   int
	limited  *specFn // inside the body of this spec function: recursive calls use the limited copy
}

func (e *evalEnv) fail(n ast.Node, format string, args ...interface{}) {
	panic(contractError{fmt.Sprintf(format, args...)})
}

type contractError struct{ msg string }

func (e *evalEnv) child() *evalEnv {
	c := *e
	c.bound = map[string]tv{}
	for k, v := range e.bound {
		c.bound[k] = v
	}
	return &c
}

// value forces an address to a loaded value
func (e *evalEnv) value(v tv) tv {
	if !v.isAddr {
		return v
	}
	return tv{term: e.a.load(e.st, v.typ, v.ref, v.off), typ: v.typ}
}

func (e *evalEnv) evalBool(x ast.Expr) string {
	v := e.value(e.eval(x))
	if v.typ == nil || !isBool(v.typ) {
		e.fail(x, "boolean expected: %s", exprString(x))
	}
	return v.term
}

func exprString(x ast.Expr) string {
	var sb strings.Builder
	writeExpr(&sb, x)
	return sb.String()
}

func writeExpr(sb *strings.Builder, x ast.Expr) {
	switch x := x.(type) {
	case *ast.Ident:
		sb.WriteString(x.Name)
	case *ast.BasicLit:
		sb.WriteString(x.Value)
	case *ast.BinaryExpr:
		writeExpr(sb, x.X)
		sb.WriteString(" " + x.Op.String() + " ")
		writeExpr(sb, x.Y)
	case *ast.CallExpr:
		writeExpr(sb, x.Fun)
		sb.WriteString("(")
		for i, a := range x.Args {
			if i > 0 {
				sb.WriteString(", ")
			}
			writeExpr(sb, a)
		}
		sb.WriteString(")")
	case *ast.SelectorExpr:
		writeExpr(sb, x.X)
		sb.WriteString("." + x.Sel.Name)
	case *ast.ParenExpr:
		sb.WriteString("(")
		writeExpr(sb, x.X)
		sb.WriteString(")")
	case *ast.IndexExpr:
		writeExpr(sb, x.X)
		sb.WriteString("[")
		writeExpr(sb, x.Index)
		sb.WriteString("]")
	case *ast.UnaryExpr:
		sb.WriteString(x.Op.String())
		writeExpr(sb, x.X)
	case *ast.StarExpr:
		sb.WriteString("*")
		writeExpr(sb, x.X)
	default:
		sb.WriteString(fmt.Sprintf("<%T>", x))
	}
}

func (e *evalEnv) eval(x ast.Expr) tv {
	g := e.g
	switch x := x.(type) {
	case *ast.ParenExpr:
		return e.eval(x.X)
	case *ast.BasicLit:
		switch x.Kind {
		case token.INT:
			i, ok := new(big.Int).SetString(x.Value, 0)
			if !ok {
				e.fail(x, "bad int literal %s", x.Value)
			}
			return tv{term: bigTerm(i)}
		case token.STRING:
			s, err := strconv.Unquote(x.Value)
			if err != nil {
				e.fail(x, "bad string literal %s", x.Value)
			}
			return tv{term: g.strLit(s), typ: tString}
		case token.CHAR:
			s, _, _, err := strconv.UnquoteChar(x.Value[1:len(x.Value)-1], '\'')
			if err != nil {
				e.fail(x, "bad char literal %s", x.Value)
			}
			return tv{term: fmt.Sprint(int(s))}
		}
		e.fail(x, "unsupported literal %s", x.Value)
	case *ast.Ident:
		return e.ident(x)
	case *ast.UnaryExpr:
		switch x.Op {
		case token.NOT:
			return tv{term: fmt.Sprintf("(not %s)", e.evalBool(x.X)), typ: tBool}
		case token.SUB:
			v := e.value(e.eval(x.X))
			return tv{term: fmt.Sprintf("(- %s)", v.term), typ: v.typ}
		case token.AND:
			v := e.eval(x.X)
			if !v.isAddr && (v.ref == "" || v.off == "") {
				e.fail(x, "cannot take address of %s", exprString(x.X))
			}
			return tv{term: fmt.Sprintf("(mkPtr %s %s)", v.ref, v.off), typ: types.NewPointer(v.typ)}
		}
		e.fail(x, "unsupported unary %s", x.Op)
	case *ast.StarExpr:
		v := e.value(e.eval(x.X))
		if v.isType {
			return tv{typ: types.NewPointer(v.typ), isType: true}
		}
		pt, ok := v.typ.Underlying().(*types.Pointer)
		if !ok {
			e.fail(x, "deref of non-pointer %s", exprString(x.X))
		}
		return e.fromAddr(pt.Elem(), fmt.Sprintf("(pref %s)", v.term), fmt.Sprintf("(poff %s)", v.term))
	case *ast.BinaryExpr:
		return e.binary(x)
	case *ast.SelectorExpr:
		return e.selector(x)
	case *ast.IndexExpr:
		return e.index(x)
	case *ast.SliceExpr:
		return e.sliceExpr(x)
	case *ast.CallExpr:
		return e.call(x)
	case *ast.TypeAssertExpr:
		v := e.value(e.eval(x.X))
		t := e.evalType(x.Type)
		return tv{term: e.a.unboxIface(t, v.term, e.st), typ: t}
	case *ast.ArrayType, *ast.MapType, *ast.InterfaceType:
		return tv{typ: e.evalType(x), isType: true}
	case *ast.CompositeLit:
		t := e.evalType(x.Type)
		if isSpecSeqType(t) {
			out := tv{term: "qempty", typ: tSSeq, spec: true}
			for _, el := range x.Elts {
				v := e.value(e.eval(el))
				out.term = fmt.Sprintf("(qpush %s %s)", out.term, v.term)
			}
			return out
		}
		e.fail(x, "unsupported composite literal of type %s", t)
	}
	e.fail(x, "unsupported expression %T", x)
	return tv{}
}

func (e *evalEnv) fromAddr(t types.Type, ref, off string) tv {
	switch t.Underlying().(type) {
	case *types.Struct, *types.Array:
		return tv{typ: t, isAddr: true, ref: ref, off: off}
	}
	term := sel(e.st.H[kindOf(t)], ref, off)
	e.assumeLoadedWF(t, term)
	return tv{term: term, typ: t, ref: ref, off: off}
}

// assumeLoadedWF: heap well-formedness of a value loaded from the heap (Go memory safety; DESIGN 4.2) -- only for closed terms
func (e *evalEnv) assumeLoadedWF(t types.Type, term string) {
	if e.nquant == 0 && e.st.Next != "" {
		if bits, signed, ok := intBits(t); ok && !signed && bits <= 16 {
			// small unsigned fields (flags, ports, codes): their range is needed after a havoc of the object
			rf := rangeFact(t, term)
			key := "rf:" + term
			if e.a != nil {
				key += "@" + e.a.curReach
			}
			if !e.g.specUsed[key] {
				e.g.specUsed[key] = true
				reach := "true"
				if e.a != nil && e.a.curReach != "" {
					reach = e.a.curReach
				}
				e.g.assumeIf(reach, rf)
			}
		}
		if wf := e.g.heapValWF(t, term, e.st); wf != "" {
			key := "wf:" + term + "@" + e.st.Next
			if e.a != nil {
				key += "@" + e.a.curReach
			}
			if !e.g.specUsed[key] {
				e.g.specUsed[key] = true
				reach := "true"
				if e.a != nil && e.a.curReach != "" {
					reach = e.a.curReach
				}
				e.g.assumeIf(reach, wf)
			}
		}
	}
}

func (e *evalEnv) ident(x *ast.Ident) tv {
	switch x.Name {
	case "true":
		return tv{term: "true", typ: tBool}
	case "false":
		return tv{term: "false", typ: tBool}
	case "nil":
		return tv{term: "nil", typ: types.Typ[types.UntypedNil]}
	}
	if v, ok := e.bound[x.Name]; ok {
		return v
	}
	if e.names != nil {
		if v, ok := e.names(x.Name, e); ok {
			return v
		}
	}
	// universe / package scope
	if e.pkg != nil {
		if obj := e.pkg.Scope().Lookup(x.Name); obj != nil {
			return e.object(obj, x)
		}
	}
	if obj := types.Universe.Lookup(x.Name); obj != nil {
		if tn, ok := obj.(*types.TypeName); ok {
			return tv{typ: tn.Type(), isType: true}
		}
	}
	// contracts on functions of other packages (standard library, dependencies) are written in a repository file:
	// names of specification functions resolve in the repository packages as well
	if e.g != nil && e.g.eng != nil {
		var paths []string
		for pth := range e.g.eng.allPkgs {
			if strings.HasPrefix(pth, repoModule) {
				paths = append(paths, pth)
			}
		}
		sort.Strings(paths)
		for _, pth := range paths {
			p := e.g.eng.allPkgs[pth]
			if p.Types == nil {
				continue
			}
			if obj := p.Types.Scope().Lookup(x.Name); obj != nil {
				if _, isFn := obj.(*types.Func); isFn && e.g.eng.specs[pth+"."+x.Name] != nil {
					return e.object(obj, x)
				}
			}
		}
	}
	e.fail(x, "unresolved name %q", x.Name)
	return tv{}
}

func (e *evalEnv) object(obj types.Object, x ast.Node) tv {
	switch o := obj.(type) {
	case *types.Const:
		switch o.Val().Kind() {
		case constant.Int:
			i, _ := new(big.Int).SetString(o.Val().ExactString(), 10)
			return tv{term: bigTerm(i), typ: o.Type()}
		case constant.Bool:
			if constant.BoolVal(o.Val()) {
				return tv{term: "true", typ: tBool}
			}
			return tv{term: "false", typ: tBool}
		case constant.String:
			return tv{term: e.g.strLit(constant.StringVal(o.Val())), typ: o.Type()}
		}
	case *types.TypeName:
		return tv{typ: o.Type(), isType: true}
	case *types.Var:
		// package-level variable: its cell
		if gl := e.g.eng.globalByObj(o); gl != nil {
			et := gl.Type().(*types.Pointer).Elem()
			id := e.g.eng.globalID(gl)
			if et.String() == "error" && !e.g.eng.globalReassigned(gl) {
				return tv{term: fmt.Sprintf("(mkIface %d (bOpaque %d))", e.g.tag(types.NewPointer(et)), id), typ: et}
			}
			return e.fromAddr(et, fmt.Sprintf("(- %d)", id), "0")
		}
	case *types.Func:
		return tv{term: "FUNC:" + o.FullName(), typ: o.Type()}
	}
	e.fail(x, "unsupported object %s", obj)
	return tv{}
}

func (e *evalEnv) evalType(x ast.Expr) types.Type {
	switch x := x.(type) {
	case *ast.Ident:
		v := e.ident(x)
		if !v.isType {
			e.fail(x, "%s is not a type", x.Name)
		}
		return v.typ
	case *ast.StarExpr:
		return types.NewPointer(e.evalType(x.X))
	case *ast.ParenExpr:
		return e.evalType(x.X)
	case *ast.ArrayType:
		if x.Len == nil {
			return types.NewSlice(e.evalType(x.Elt))
		}
		n := e.eval(x.Len)
		k, _ := strconv.Atoi(n.term)
		return types.NewArray(e.evalType(x.Elt), int64(k))
	case *ast.SelectorExpr:
		v := e.selector(x)
		if !v.isType {
			e.fail(x, "not a type")
		}
		return v.typ
	}
	e.fail(x, "unsupported type expression %T", x)
	return nil
}

func unifyTypes(a, b tv) types.Type {
	if a.typ != nil && !isUntyped(a.typ) {
		return a.typ
	}
	if b.typ != nil && !isUntyped(b.typ) {
		return b.typ
	}
	return tInt
}

func isUntyped(t types.Type) bool {
	b, ok := t.(*types.Basic)
	return ok && b.Info()&types.IsUntyped != 0
}

func (e *evalEnv) binary(x *ast.BinaryExpr) tv {
	switch x.Op {
	case token.LAND:
		return tv{term: fmt.Sprintf("(and %s %s)", e.evalBool(x.X), e.evalBool(x.Y)), typ: tBool}
	case token.LOR:
		return tv{term: fmt.Sprintf("(or %s %s)", e.evalBool(x.X), e.evalBool(x.Y)), typ: tBool}
	}
	l, r := e.value(e.eval(x.X)), e.value(e.eval(x.Y))
	// nil comparisons
	if x.Op == token.EQL || x.Op == token.NEQ {
		var other tv
		isNil := false
		if r.term == "nil" {
			other, isNil = l, true
		} else if l.term == "nil" {
			other, isNil = r, true
		}
		if isNil {
			var eq string
			switch other.typ.Underlying().(type) {
			case *types.Slice:
				if other.spec {
					e.fail(x, "spec sequence compared with nil")
				}
				eq = fmt.Sprintf("(= (sref %s) 0)", other.term)
			case *types.Pointer:
				eq = fmt.Sprintf("(= (pref %s) 0)", other.term)
			case *types.Interface, *types.Signature:
				eq = fmt.Sprintf("(= %s nilIface)", other.term)
			case *types.Map, *types.Chan:
				eq = fmt.Sprintf("(= %s 0)", other.term)
			default:
				e.fail(x, "nil comparison on %s", other.typ)
			}
			if x.Op == token.NEQ {
				eq = "(not " + eq + ")"
			}
			return tv{term: eq, typ: tBool}
		}
		t := unifyTypes(l, r)
		var eq string
		if isString(t) {
			eq = fmt.Sprintf("(seqeq %s %s)", l.term, r.term)
		} else if l.spec || r.spec {
			eq = fmt.Sprintf("(qeq %s %s)", e.toSpec(l, x).term, e.toSpec(r, x).term)
		} else {
			eq = fmt.Sprintf("(= %s %s)", l.term, r.term)
		}
		if x.Op == token.NEQ {
			eq = "(not " + eq + ")"
		}
		return tv{term: eq, typ: tBool}
	}
	t := unifyTypes(l, r)
	rt := t
	switch x.Op {
	case token.LSS, token.LEQ, token.GTR, token.GEQ:
		rt = tBool
	case token.SHL, token.SHR:
		if l.typ == nil {
			rt = tInt
			t = tInt
		} else {
			rt, t = l.typ, l.typ
		}
	}
	term := e.g.binopTerm(x.Op, t, rt, l.term, r.term, nil, nil, nil, "cx", "true")
	if rt == tBool {
		return tv{term: term, typ: tBool}
	}
	if l.typ == nil && r.typ == nil {
		return tv{term: term}
	}
	return tv{term: term, typ: rt}
}

func (e *evalEnv) selector(x *ast.SelectorExpr) tv {
	// package-qualified name?
	if id, ok := x.X.(*ast.Ident); ok {
		if _, isBound := e.bound[id.Name]; !isBound {
			if _, isName := e.tryName(id.Name); !isName {
				if p := e.g.eng.packageByName(id.Name, e.pkg); p != nil {
					obj := p.Scope().Lookup(x.Sel.Name)
					if obj == nil {
						e.fail(x, "no %s in package %s", x.Sel.Name, id.Name)
					}
					return e.object(obj, x)
				}
			}
		}
	}
	v := e.eval(x.X)
	t := v.typ
	if t == nil {
		e.fail(x, "selector on untyped value")
	}
	// auto-deref pointers
	if pt, ok := t.Underlying().(*types.Pointer); ok {
		vv := e.value(v)
		v = tv{typ: pt.Elem(), isAddr: true, ref: fmt.Sprintf("(pref %s)", vv.term), off: fmt.Sprintf("(poff %s)", vv.term)}
		t = pt.Elem()
	}
	obj, path, _ := types.LookupFieldOrMethod(t, true, e.pkgOf(t), x.Sel.Name)
	if obj == nil {
		// unexported field of a foreign package: look up structurally
		path = findField(t, x.Sel.Name)
		if path == nil {
			e.fail(x, "no field %s in %s", x.Sel.Name, t)
		}
	} else if _, isVar := obj.(*types.Var); !isVar {
		e.fail(x, "%s is not a field (methods cannot be called in contracts)", x.Sel.Name)
	}
	cur := v
	for _, idx := range path {
		ct := cur.typ
		if pt, ok := ct.Underlying().(*types.Pointer); ok {
			cv := e.value(cur)
			cur = tv{typ: pt.Elem(), isAddr: true, ref: fmt.Sprintf("(pref %s)", cv.term), off: fmt.Sprintf("(poff %s)", cv.term)}
			ct = pt.Elem()
		}
		st, ok := ct.Underlying().(*types.Struct)
		if !ok {
			e.fail(x, "field of non-struct %s", ct)
		}
		f := st.Field(idx)
		if cur.isAddr {
			cur = e.fromAddr(f.Type(), cur.ref, add(cur.off, fmt.Sprint(fieldSlot(st, idx))))
		} else {
			cur = tv{term: fmt.Sprintf("(%s_f%d %s)", e.g.sortOf(ct), idx, cur.term), typ: f.Type()}
		}
	}
	return cur
}

func (e *evalEnv) tryName(n string) (tv, bool) {
	if e.names == nil {
		return tv{}, false
	}
	defer func() { recover() }()
	return e.names(n, e)
}

func (e *evalEnv) pkgOf(t types.Type) *types.Package {
	if n, ok := t.(*types.Named); ok && n.Obj() != nil {
		return n.Obj().Pkg()
	}
	return e.pkg
}

func findField(t types.Type, name string) []int {
	st, ok := t.Underlying().(*types.Struct)
	if !ok {
		return nil
	}
	for i := 0; i < st.NumFields(); i++ {
		if st.Field(i).Name() == name {
			return []int{i}
		}
	}
	for i := 0; i < st.NumFields(); i++ {
		if st.Field(i).Embedded() {
			ft := st.Field(i).Type()
			if p := findField(derefType(ft), name); p != nil {
				return append([]int{i}, p...)
			}
		}
	}
	return nil
}

func derefType(t types.Type) types.Type {
	if p, ok := t.Underlying().(*types.Pointer); ok {
		return p.Elem()
	}
	return t
}

func (e *evalEnv) index(x *ast.IndexExpr) tv {
	base := e.eval(x.X)
	idx := e.value(e.eval(x.Index))
	if base.spec {
		return tv{term: fmt.Sprintf("(qat %s %s)", base.term, idx.term), typ: tString}
	}
	if base.smap {
		return tv{term: fmt.Sprintf("(ite (select (smdom %s) %s) (select (smval %s) %s) sempty)", base.term, idx.term, base.term, idx.term), typ: tString}
	}
	if base.isAddr {
		if at, ok := base.typ.Underlying().(*types.Array); ok {
			return e.fromAddr(at.Elem(), base.ref, fmt.Sprintf("(+ %s %s)", base.off, mulConst(slots(at.Elem()), idx.term)))
		}
	}
	b := e.value(base)
	switch t := b.typ.Underlying().(type) {
	case *types.Slice:
		if suf := fmt.Sprintf(" (soff %s))", b.term); slots(t.Elem()) == 1 && strings.HasPrefix(idx.term, "(- ") && strings.HasSuffix(idx.term, suf) {
			// absolute-index form introduced by quant(): off + (j - off) = j
			return e.fromAddr(t.Elem(), fmt.Sprintf("(sref %s)", b.term), idx.term[3:len(idx.term)-len(suf)])
		}
		return e.fromAddr(t.Elem(), fmt.Sprintf("(sref %s)", b.term), fmt.Sprintf("(+ (soff %s) %s)", b.term, mulConst(slots(t.Elem()), idx.term)))
	case *types.Basic:
		if isString(t) {
			return tv{term: fmt.Sprintf("(sat %s %s)", b.term, idx.term), typ: types.Typ[types.Uint8]}
		}
	case *types.Array:
		return tv{term: fmt.Sprintf("(select %s %s)", b.term, idx.term), typ: t.Elem()}
	case *types.Map:
		if slots(t.Elem()) != 1 {
			e.fail(x, "map with multi-slot values")
		}
		key := e.a.mapKey(t.Key(), idx.term)
		k := "M" + kindOf(t.Elem())
		e.assumeLoadedWF(t.Elem(), sel(e.st.H[k], b.term, key))
		return tv{term: fmt.Sprintf("(ite %s %s %s)", sel(e.st.H["MD"], b.term, key), sel(e.st.H[k], b.term, key), e.g.zero(t.Elem())), typ: t.Elem()}
	case *types.Pointer:
		if at, ok := t.Elem().Underlying().(*types.Array); ok {
			return e.fromAddr(at.Elem(), fmt.Sprintf("(pref %s)", b.term), fmt.Sprintf("(+ (poff %s) %s)", b.term, mulConst(slots(at.Elem()), idx.term)))
		}
	}
	e.fail(x, "cannot index %s", b.typ)
	return tv{}
}

func (e *evalEnv) sliceExpr(x *ast.SliceExpr) tv {
	b0 := e.eval(x.X)
	if b0.isAddr {
		if _, ok := b0.typ.Underlying().(*types.Array); ok {
			return e.sliceOfArrayAddr(b0, x)
		}
	}
	b := e.value(b0)
	lo := "0"
	if x.Low != nil {
		lo = e.value(e.eval(x.Low)).term
	}
	switch t := b.typ.Underlying().(type) {
	case *types.Basic:
		if isString(t) {
			hi := fmt.Sprintf("(slen %s)", b.term)
			if x.High != nil {
				hi = e.value(e.eval(x.High)).term
			}
			return tv{term: fmt.Sprintf("(ssub %s %s %s)", b.term, lo, hi), typ: b.typ}
		}
	case *types.Slice:
		if b.spec {
			e.fail(x, "slicing of spec sequences is not supported")
		}
		hi := fmt.Sprintf("(sllen %s)", b.term)
		if x.High != nil {
			hi = e.value(e.eval(x.High)).term
		}
		return tv{term: fmt.Sprintf("(mkSlice (sref %s) (+ (soff %s) %s) (- %s %s) (- (scap %s) %s))", b.term, b.term, mulConst(slots(t.Elem()), lo), hi, lo, b.term, lo), typ: b.typ}
	}
	e.fail(x, "cannot slice %s", b.typ)
	return tv{}
}

// sliceOfArrayAddr: x[lo:hi] where x is an array living in memory
func (e *evalEnv) sliceOfArrayAddr(base tv, x *ast.SliceExpr) tv {
	at := base.typ.Underlying().(*types.Array)
	lo := "0"
	if x.Low != nil {
		lo = e.value(e.eval(x.Low)).term
	}
	hi := fmt.Sprint(at.Len())
	if x.High != nil {
		hi = e.value(e.eval(x.High)).term
	}
	return tv{term: fmt.Sprintf("(mkSlice %s (+ %s %s) (- %s %s) (- %d %s))", base.ref, base.off, mulConst(slots(at.Elem()), lo), hi, lo, at.Len(), lo), typ: types.NewSlice(at.Elem())}
}

// rangeOf: the object and slot range [lo,hi) a modifies target denotes (lo == "": the whole object)
func rangeOf(v tv) (modRange, bool) {
	switch u := v.typ.Underlying().(type) {
	case *types.Slice:
		return modRange{fmt.Sprintf("(sref %s)", v.term), fmt.Sprintf("(soff %s)", v.term), fmt.Sprintf("(+ (soff %s) %s)", v.term, mulConst(slots(u.Elem()), fmt.Sprintf("(sllen %s)", v.term)))}, true
	case *types.Pointer:
		return modRange{fmt.Sprintf("(pref %s)", v.term), fmt.Sprintf("(poff %s)", v.term), fmt.Sprintf("(+ (poff %s) %d)", v.term, slots(u.Elem()))}, true
	}
	r, ok := refOf(v)
	return modRange{r, "", ""}, ok
}

func refOf(v tv) (string, bool) {
	switch v.typ.Underlying().(type) {
	case *types.Slice:
		return fmt.Sprintf("(sref %s)", v.term), true
	case *types.Pointer:
		return fmt.Sprintf("(pref %s)", v.term), true
	case *types.Map, *types.Chan:
		return v.term, true
	case *types.Interface:
		// the object a boxed pointer refers to (interfaces holding non-pointers have no object: reference 0)
		return fmt.Sprintf("(ite (is-bPtr (ibox %s)) (pref (ubPtr (ibox %s))) 0)", v.term, v.term), true
	}
	return "", false
}

func (e *evalEnv) call(x *ast.CallExpr) tv {
	g := e.g
	// conversions and builtins by name
	if id, ok := x.Fun.(*ast.Ident); ok {
		switch id.Name {
		case "__implies":
			return tv{term: fmt.Sprintf("(=> %s %s)", e.evalBool(x.Args[0]), e.evalBool(x.Args[1])), typ: tBool}
		case "__iff":
			return tv{term: fmt.Sprintf("(= %s %s)", e.evalBool(x.Args[0]), e.evalBool(x.Args[1])), typ: tBool}
		case "__forall", "__exists":
			return e.quant(id.Name[2:], x)
		case "old":
			if e.old == nil {
				e.fail(x, "old() is not available in this context")
			}
			c := e.child()
			c.st = e.old
			c.inOld = true
			if e.oldNames != nil {
				c.names = e.oldNames
			}
			return c.value(c.eval(x.Args[0]))
		case "len":
			v := e.eval(x.Args[0])
			if v.spec {
				return tv{term: fmt.Sprintf("(qlen %s)", v.term), typ: tInt}
			}
			if v.isAddr {
				if at, ok := v.typ.Underlying().(*types.Array); ok {
					return tv{term: fmt.Sprint(at.Len()), typ: tInt}
				}
			}
			v = e.value(v)
			switch t := v.typ.Underlying().(type) {
			case *types.Slice:
				return tv{term: fmt.Sprintf("(sllen %s)", v.term), typ: tInt}
			case *types.Basic:
				if isString(t) {
					return tv{term: fmt.Sprintf("(slen %s)", v.term), typ: tInt}
				}
			case *types.Array:
				return tv{term: fmt.Sprint(t.Len()), typ: tInt}
			case *types.Map:
				return tv{term: fmt.Sprintf("(maplen (select %s %s))", e.st.H["MD"], v.term), typ: tInt}
			}
			e.fail(x, "len of %s", v.typ)
		case "cap":
			v := e.value(e.eval(x.Args[0]))
			return tv{term: fmt.Sprintf("(scap %s)", v.term), typ: tInt}
		case "has":
			m := e.value(e.eval(x.Args[0]))
			k := e.value(e.eval(x.Args[1]))
			mt, ok := m.typ.Underlying().(*types.Map)
			if !ok {
				e.fail(x, "has() on non-map")
			}
			return tv{term: fmt.Sprintf("(and (not (= %s 0)) %s)", m.term, sel(e.st.H["MD"], m.term, e.a.mapKey(mt.Key(), k.term))), typ: tBool}
		case "mapdom", "mapval":
			m := e.value(e.eval(x.Args[0]))
			k := e.value(e.eval(x.Args[1]))
			mt, ok := m.typ.Underlying().(*types.Map)
			if !ok {
				e.fail(x, "%s() on non-map", id.Name)
			}
			key := e.a.mapKey(mt.Key(), k.term)
			if id.Name == "mapdom" {
				return tv{term: sel(e.st.H["MD"], m.term, key), typ: tBool}
			}
			return tv{term: sel(e.st.H["M"+kindOf(mt.Elem())], m.term, key), typ: mt.Elem()}
		case "fresh":
			v := e.value(e.eval(x.Args[0]))
			r, ok := refOf(v)
			if !ok {
				e.fail(x, "fresh() of a value without reference: %s", v.typ)
			}
			return tv{term: fmt.Sprintf("(or (= %s 0) (>= %s %s))", r, r, e.entryNext), typ: tBool}
		case "exact":
			// exact(p): p points to a whole object of exactly its static element type (not into a larger object)
			v := e.value(e.eval(x.Args[0]))
			pt, ok := v.typ.Underlying().(*types.Pointer)
			if !ok {
				e.fail(x, "exact() needs a pointer")
			}
			return tv{term: fmt.Sprintf("(and (= (poff %s) 0) (= (rtype (pref %s)) %d))", v.term, v.term, e.g.allocTag(objAlloc(pt.Elem()))), typ: tBool}
		case "allocated":
			v := e.value(e.eval(x.Args[0]))
			r, ok := refOf(v)
			if !ok {
				e.fail(x, "allocated() of a value without reference")
			}
			return tv{term: fmt.Sprintf("(and (not (= %s 0)) (< %s %s))", r, r, e.st.Next), typ: tBool}
		case "ref":
			v := e.value(e.eval(x.Args[0]))
			r, ok := refOf(v)
			if !ok {
				e.fail(x, "ref() of a value without reference")
			}
			return tv{term: r, typ: tInt}
		case "off":
			v := e.value(e.eval(x.Args[0]))
			switch v.typ.Underlying().(type) {
			case *types.Slice:
				return tv{term: fmt.Sprintf("(soff %s)", v.term), typ: tInt}
			case *types.Pointer:
				return tv{term: fmt.Sprintf("(poff %s)", v.term), typ: tInt}
			}
			e.fail(x, "off() of %s", v.typ)
		case "typeIs":
			v := e.value(e.eval(x.Args[0]))
			t := e.evalType(x.Args[1])
			if e.nquant == 0 && e.a != nil {
				// the dynamic type determines the representation of the boxed value (well-formedness of interface values)
				key := fmt.Sprintf("shape:%s:%d@%s", v.term, g.tag(t), e.a.curReach)
				if !g.specUsed[key] {
					g.specUsed[key] = true
					reach := "true"
					if e.a.curReach != "" {
						reach = e.a.curReach
					}
					g.assumeIf(reach, fmt.Sprintf("(=> (= (itag %s) %d) %s)", v.term, g.tag(t), e.a.boxShape(t, v.term)))
				}
			}
			return tv{term: fmt.Sprintf("(= (itag %s) %d)", v.term, g.tag(t)), typ: tBool}
		case "called":
			// called("F"): the function under verification has called F on this path
			if e.atCallSite {
				panic(ownProofOnly{})
			}
			if e.a == nil || len(x.Args) != 1 {
				e.fail(x, "called(\"F\")")
			}
			top := e.a
			for top.parent != nil {
				top = top.parent
			}
			rec := top.lastCall[qualifyKey(stringLit(x.Args[0]), e.pkg.Name())]
			if rec == nil {
				return tv{term: "false", typ: tBool}
			}
			if rec.ambiguous {
				return tv{term: g.havoc(e.a.nm("called"), "Bool"), typ: tBool}
			}
			return tv{term: rec.reach, typ: tBool}
		case "aftercall":
			// aftercall("F", e): the value e had right after the call of F made by the function under verification returned
			if e.atCallSite {
				panic(ownProofOnly{})
			}
			if e.a == nil || len(x.Args) != 2 {
				e.fail(x, "aftercall(\"F\", expr)")
			}
			top := e.a
			for top.parent != nil {
				top = top.parent
			}
			rec := top.lastCall[qualifyKey(stringLit(x.Args[0]), e.pkg.Name())]
			if rec == nil || rec.ambiguous || rec.post == nil {
				// no such call (or several): nothing is known about the value
				v := e.value(e.eval(x.Args[1]))
				if v.spec || v.typ == nil {
					e.fail(x, "aftercall: the function makes no single call of %s", stringLit(x.Args[0]))
				}
				return tv{term: g.havoc(e.a.nm("nocall"), g.sortOf(v.typ)), typ: v.typ}
			}
			saved := e.st
			e.st = rec.post
			v := e.value(e.eval(x.Args[1]))
			e.st = saved
			return v
		case "callarg", "callresult":
			// callarg("F", i) / callresult("F", i): the i-th argument (receiver first) / result of the call of F made by the
			// function under verification (which must have one call site of F); arbitrary when no such call was made
			if e.atCallSite {
				panic(ownProofOnly{})
			}
			if e.a == nil || len(x.Args) != 2 {
				e.fail(x, "%s(\"F\", i)", id.Name)
			}
			fname := qualifyKey(stringLit(x.Args[0]), e.pkg.Name())
			bl, ok := x.Args[1].(*ast.BasicLit)
			if !ok || bl.Kind != token.INT {
				e.fail(x, "%s: constant index expected", id.Name)
			}
			i, _ := strconv.Atoi(bl.Value)
			top := e.a
			for top.parent != nil {
				top = top.parent
			}
			rec := top.lastCall[fname]
			var fn *ssa.Function
			if rec != nil {
				fn = rec.fn
				if rec.ambiguous {
					// more than one call site: which call is meant is not defined, nothing is known about the value
					g.note("%s(%s): more than one call site, value arbitrary", id.Name, fname)
					rec = nil
				}
			} else {
				for f := range g.eng.allFns {
					if shortFn(f) == fname {
						fn = f
					}
				}
			}
			if fn == nil {
				e.fail(x, "no function %s", fname)
			}
			var t types.Type
			if id.Name == "callarg" {
				if i < 0 || i >= len(fn.Params) {
					e.fail(x, "%s has no argument %d", fname, i)
				}
				t = fn.Params[i].Type()
				if rec != nil {
					return tv{term: rec.args[i], typ: t}
				}
			} else {
				rs := fn.Signature.Results()
				if i < 0 || i >= rs.Len() {
					e.fail(x, "%s has no result %d", fname, i)
				}
				t = rs.At(i).Type()
				if rec != nil && rec.res != nil {
					act := rec.act
					if act == nil {
						act = top
					}
					if tup, ok := act.tuples[rec.res]; ok {
						return tv{term: tup[i], typ: t}
					}
					if v, ok := act.env[rec.res]; ok && rs.Len() == 1 {
						return tv{term: v, typ: t}
					}
				}
			}
			return tv{term: g.havoc(e.a.nm("nocall"), g.sortOf(t)), typ: t}
		case "closureOf", "captured":
			// closureOf(v, "F$1"): the function value v is a closure of the anonymous function F$1 created in this proof
			// context; captured(v, "F$1", "x"): the value of its captured variable x (arbitrary when v is no such closure)
			if e.atCallSite {
				panic(ownProofOnly{})
			}
			if e.a == nil || len(x.Args) < 2 {
				e.fail(x, "%s(v, \"Fn$1\"[, \"var\"])", id.Name)
			}
			v := e.value(e.eval(x.Args[0]))
			fname := qualifyKey(stringLit(x.Args[1]), e.pkg.Name())
			ci := e.a.resolveClosure(v.term, fname)
			if id.Name == "closureOf" {
				if ci == nil {
					return tv{term: "false", typ: tBool}
				}
				return tv{term: "true", typ: tBool}
			}
			if len(x.Args) != 3 {
				e.fail(x, "captured(v, \"Fn$1\", \"var\")")
			}
			vname := stringLit(x.Args[2])
			var fn *ssa.Function
			if ci != nil {
				fn = ci.fn
			} else {
				for f := range g.eng.allFns {
					if shortFn(f) == fname {
						fn = f
					}
				}
			}
			if fn == nil {
				e.fail(x, "no function %s", fname)
			}
			for i, fv := range fn.FreeVars {
				if fv.Name() != vname {
					continue
				}
				pt, ok := fv.Type().Underlying().(*types.Pointer)
				if !ok {
					e.fail(x, "captured variable %s of %s is not a cell", vname, fname)
				}
				if ci == nil {
					return tv{term: g.havoc(e.a.nm("nocapture_"+vname), g.sortOf(pt.Elem())), typ: pt.Elem()}
				}
				b := ci.bindings[i]
				if c, ok := g.constCell[b]; ok {
					return tv{term: c, typ: pt.Elem()}
				}
				return e.fromAddr(pt.Elem(), fmt.Sprintf("(pref %s)", b), fmt.Sprintf("(poff %s)", b))
			}
			e.fail(x, "%s captures no variable %s", fname, vname)
		case "sameSlice":
			l, r := e.value(e.eval(x.Args[0])), e.value(e.eval(x.Args[1]))
			return tv{term: fmt.Sprintf("(= %s %s)", l.term, r.term), typ: tBool}
		case "unchanged":
			// unchanged(x): the object x refers to has the same contents as at entry (all kinds)
			v := e.value(e.eval(x.Args[0]))
			r, ok := refOf(v)
			if !ok || e.old == nil {
				e.fail(x, "unchanged() needs a reference and an old state")
			}
			var parts []string
			for _, k := range heapKinds {
				parts = append(parts, fmt.Sprintf("(= (select %s %s) (select %s %s))", e.st.H[k], r, e.old.H[k], r))
			}
			return tv{term: "(and " + strings.Join(parts, " ") + ")", typ: tBool}
		case "ite":
			c := e.evalBool(x.Args[0])
			l, r := e.value(e.eval(x.Args[1])), e.value(e.eval(x.Args[2]))
			out := tv{term: fmt.Sprintf("(ite %s %s %s)", c, l.term, r.term), typ: l.typ, spec: l.spec}
			if out.typ == nil {
				out.typ = r.typ
			}
			return out
		case "append":
			l := e.eval(x.Args[0])
			if l.spec {
				r := e.value(e.eval(x.Args[1]))
				return tv{term: fmt.Sprintf("(qpush %s %s)", l.term, r.term), typ: tSSeq, spec: true}
			}
			e.fail(x, "append() only on spec sequences in contracts")
		case "zeros", "specZeros":
			v := e.value(e.eval(x.Args[0]))
			return tv{term: fmt.Sprintf("(szeros %s)", v.term), typ: tString}
		case "specByte":
			v := e.value(e.eval(x.Args[0]))
			return tv{term: fmt.Sprintf("(sunit (mod %s 256))", v.term), typ: tString}
		case "specHas":
			m := e.value(e.eval(x.Args[0]))
			k := e.value(e.eval(x.Args[1]))
			if !m.smap {
				if m.typ != nil && isSpecMapType(m.typ) {
					// the Go map parameter of a specification function under verification
					return tv{term: sel(e.st.H["MD"], m.term, k.term), typ: tBool}
				}
				e.fail(x, "specHas() needs a specification map")
			}
			return tv{term: fmt.Sprintf("(select (smdom %s) %s)", m.term, k.term), typ: tBool}
		case "mapview":
			// mapview(o): the specification-level view (keys, byte-string values) of a map[K][]byte in memory
			m := e.value(e.eval(x.Args[0]))
			mt, ok := m.typ.Underlying().(*types.Map)
			if !ok {
				e.fail(x, "mapview() of %s", m.typ)
			}
			if vs, ok := mt.Elem().Underlying().(*types.Slice); !ok || slots(vs.Elem()) != 1 || kindOf(vs.Elem()) != "I" {
				e.fail(x, "mapview(): values must be byte slices")
			}
			return tv{term: fmt.Sprintf("(mkSMap (select %s %s) (mvview (select %s %s) (select %s %s) %s))", e.st.H["MD"], m.term, e.st.H["MD"], m.term, e.st.H["ML"], m.term, e.st.H["I"]), typ: types.NewMap(mt.Key(), tString), smap: true}
		case "chsends":
			// chsends(): number of values the function has sent on channels so far; lastChan(): the channel of the most
			// recent one; lastChanValue(): the (pointer) value sent
			return tv{term: sel(e.st.H["G"], ghostChanRef, "0"), typ: tInt}
		case "lastChan":
			return tv{term: sel(e.st.H["G"], ghostChanRef, "1"), typ: types.NewChan(types.SendRecv, types.NewStruct(nil, nil))}
		case "lastChanValue":
			return tv{term: fmt.Sprintf("(mkPtr %s %s)", sel(e.st.H["G"], ghostChanRef, "2"), sel(e.st.H["G"], ghostChanRef, "3")), typ: types.NewPointer(types.NewStruct(nil, nil))}
		case "fireAt":
			// fireAt(ch) / isTimer(ch): ghost attributes of a channel returned by time.After
			v := e.value(e.eval(x.Args[0]))
			return tv{term: sel(e.st.H["G"], ghostFireRef, v.term), typ: tInt}
		case "isTimer":
			v := e.value(e.eval(x.Args[0]))
			return tv{term: fmt.Sprintf("(= %s 1)", sel(e.st.H["G"], ghostTimerRef, v.term)), typ: tBool}
		case "now":
			return tv{term: e.g.clockNow(e.st), typ: tInt}
		case "sends":
			return tv{term: e.g.sendsNow(e.st), typ: tInt}
		case "sentAt":
			return tv{term: sel(e.st.H["G"], ghostSendRef, "1"), typ: tInt}
		case "lastSent":
			return tv{term: sel(e.st.H["Q"], ghostSendRef, "0"), typ: tString}
		case "lastSentTo":
			return tv{term: sel(e.st.H["F"], ghostSendRef, "0"), typ: types.Universe.Lookup("any").Type()}
		case "sameheap":
			// sameheap(): every heap component and the allocation counter are what they were at entry (loops of functions
			// that neither write nor - on the paths that continue - allocate)
			if e.old == nil {
				e.fail(x, "sameheap() needs an old state")
			}
			parts := []string{fmt.Sprintf("(= %s %s)", e.st.Next, e.old.Next)}
			for _, k := range heapKinds {
				if e.st.H[k] != e.old.H[k] {
					parts = append(parts, fmt.Sprintf("(= %s %s)", e.st.H[k], e.old.H[k]))
				}
			}
			return tv{term: "(and " + strings.Join(parts, " ") + ")", typ: tBool}
		case "escapes":
			// escapes(): ghost count of the allocations made so far that can outlive the function (noalloc proofs)
			return tv{term: e.g.escNow(e.st), typ: tInt}
		case "allocstamp":
			// allocstamp(): the allocation counter at this point (every object allocated later has a reference >= it)
			return tv{term: e.st.Next, typ: tInt}
		case "spawned":
			// spawned(): number of go statements the function under verification has executed so far (ghost)
			return tv{term: sel(e.st.H["I"], ghostSpawnRef, "0"), typ: tInt}
		case "seen":
			// seen(k): key k has been produced by the (single) map range loop of this function
			var it string
			n := 0
			var kt types.Type
			if e.a != nil && e.a.fn != nil {
				for _, b := range e.a.fn.Blocks {
					for _, in := range b.Instrs {
						if r, ok := in.(*ssa.Range); ok {
							if mt, ok := r.X.Type().Underlying().(*types.Map); ok {
								if t, bound := e.a.env[r]; bound && t != "RANGE" {
									it, kt = t, mt.Key()
									n++
								}
							}
						}
					}
				}
			}
			if n != 1 {
				e.fail(x, "seen(): needs exactly one executed map range in the function (found %d)", n)
			}
			k := e.value(e.eval(x.Args[0]))
			return tv{term: sel(e.st.H["MD"], it, e.a.mapKey(kt, k.term)), typ: tBool}
		case "seq":
			// seq(x): the spec-level sequence view of a []string in memory
			return e.toSpec(e.value(e.eval(x.Args[0])), x)
		case "string":
			v := e.value(e.eval(x.Args[0]))
			if st, ok := v.typ.Underlying().(*types.Slice); ok && !v.spec && slots(st.Elem()) == 1 && kindOf(st.Elem()) == "I" {
				return tv{term: fmt.Sprintf("(sofarr (select %s (sref %s)) (soff %s) (sllen %s))", e.st.H["I"], v.term, v.term, v.term), typ: tString}
			}
			if v.typ == nil || isString(v.typ) {
				return tv{term: v.term, typ: tString}
			}
			if _, _, ok := intBits(v.typ); ok {
				return tv{term: fmt.Sprintf("(sunit %s)", v.term), typ: tString}
			}
			e.fail(x, "string() of %s", v.typ)
		}
	}
	// x.M() for an interface value x and a method all of whose implementations are trivial getters (Code(), IsRelay(), ...)
	if sx, ok := x.Fun.(*ast.SelectorExpr); ok && len(x.Args) == 0 {
		if _, isPkg := sx.X.(*ast.Ident); !isPkg || func() bool { _, b := e.tryName(sx.X.(*ast.Ident).Name); _, bb := e.bound[sx.X.(*ast.Ident).Name]; return b || bb }() {
			if rv, evok := e.tryEvalValue(sx.X); evok && rv.typ != nil {
				if it, isI := rv.typ.Underlying().(*types.Interface); isI {
					for i := 0; i < it.NumMethods(); i++ {
						if m := it.Method(i); m.Name() == sx.Sel.Name {
							if t, _, ok := g.eng.ifaceGetter(g, e.a, rv.typ, m, rv.term, e.st); ok {
								return tv{term: t, typ: m.Type().(*types.Signature).Results().At(0).Type()}
							}
							e.fail(x, "method %s is not a trivial getter in every implementation: it cannot be called in a contract", sx.Sel.Name)
						}
					}
				}
			}
		}
	}
	// macro
	if id, ok := x.Fun.(*ast.Ident); ok && e.pkg != nil {
		mc := macros[e.pkg.Path()+"."+id.Name]
		if mc == nil {
			for _, m2 := range macros {
				if m2.Name == id.Name {
					mc = m2
				}
			}
		}
		if mc != nil {
			if len(mc.Params) != len(x.Args) {
				e.fail(x, "macro %s: wrong number of arguments", mc.Name)
			}
			c := e.child()
			for i, p := range mc.Params {
				c.bound[p] = e.eval(x.Args[i])
			}
			// the body is evaluated in the package that defines the macro (its specification functions and types)
			if mp := e.g.eng.pkgByPath(mc.PkgPath); mp != nil {
				c.pkg = mp
			}
			return c.eval(mc.Body.Expr)
		}
	}
	// type conversion T(x)
	if len(x.Args) == 1 {
		if t, ok := e.tryType(x.Fun); ok {
			v := e.value(e.eval(x.Args[0]))
			if _, _, tok := intBits(t); tok {
				return tv{term: wrap(t, v.term), typ: t}
			}
			if isString(t) && (v.typ == nil || isString(v.typ)) {
				return tv{term: v.term, typ: t}
			}
			if v.typ != nil && types.Identical(t.Underlying(), v.typ.Underlying()) {
				return tv{term: v.term, typ: t, spec: v.spec}
			}
			if _, isI := t.Underlying().(*types.Interface); isI && v.typ != nil {
				// conversion of a concrete (one-slot) value to an interface: boxing
				switch e.g.sortOf(v.typ) {
				case "Int", "Bool", "BSeq", "Slice", "Ptr", "Iface":
					return tv{term: e.a.makeIface(v.typ, v.term, e.st, "conv"), typ: t}
				}
			}
			e.fail(x, "unsupported conversion to %s from %s", t, v.typ)
		}
	}
	// specification function
	fv := e.eval(x.Fun)
	if !strings.HasPrefix(fv.term, "FUNC:") {
		e.fail(x, "call of non-function %s", exprString(x.Fun))
	}
	sf := g.eng.specFunc(fv.term[5:])
	if sf == nil {
		e.fail(x, "%s is not a specification function (no body found)", fv.term[5:])
	}
	g.useSpec(sf)
	sig := sf.obj.Type().(*types.Signature)
	if sig.Params().Len() != len(x.Args) {
		e.fail(x, "wrong argument count for %s", sf.name)
	}
	var args []string
	for i, ax := range x.Args {
		v := e.value(e.eval(ax))
		pt := sig.Params().At(i).Type()
		if isSpecSeqType(pt) && !v.spec {
			v = e.toSpec(v, ax)
		}
		if isSpecMapType(pt) && !v.smap {
			// a Go map[K]string in memory (the parameter of a specification function under verification)
			v = tv{term: fmt.Sprintf("(mkSMap (select %s %s) (select %s %s))", e.st.H["MD"], v.term, e.st.H["MQ"], v.term), typ: pt, smap: true}
		}
		args = append(args, v.term)
	}
	rt := sig.Results().At(0).Type()
	fname := sf.smtName
	if e.limited != nil && (e.limited == sf || e.g.eng.specSCC(e.limited.name) == e.g.eng.specSCC(sf.name)) {
		fname += "_L"
	}
	return tv{term: fmt.Sprintf("(%s %s)", fname, strings.Join(args, " ")), typ: rt, spec: isSpecSeqType(rt)}
}

func isSpecMapType(t types.Type) bool {
	m, ok := t.Underlying().(*types.Map)
	if !ok || !isString(m.Elem()) {
		return false
	}
	_, _, isInt := intBits(m.Key())
	return isInt
}

func isSpecSeqType(t types.Type) bool {
	s, ok := t.Underlying().(*types.Slice)
	return ok && isString(s.Elem())
}

func (e *evalEnv) toSpec(v tv, x ast.Node) tv {
	if v.spec {
		return v
	}
	if s, ok := v.typ.Underlying().(*types.Slice); ok {
		if in, ok := s.Elem().Underlying().(*types.Slice); ok && slots(in.Elem()) == 1 && kindOf(in.Elem()) == "I" {
			// [][]byte (also []net.IP, ...): sequence of the byte strings its elements hold
			return tv{term: fmt.Sprintf("(qofarr2 (select %s (sref %s)) %s (soff %s) (sllen %s))", e.st.H["L"], v.term, e.st.H["I"], v.term, v.term), typ: tSSeq, spec: true}
		}
	}
	if !isSpecSeqType(v.typ) {
		e.fail(x, "cannot view %s as a sequence of strings", v.typ)
	}
	return tv{term: fmt.Sprintf("(qofarr (select %s (sref %s)) (soff %s) (sllen %s))", e.st.H["Q"], v.term, v.term, v.term), typ: tSSeq, spec: true}
}

func (e *evalEnv) tryType(x ast.Expr) (t types.Type, ok bool) {
	defer func() {
		if r := recover(); r != nil {
			if _, isCE := r.(contractError); isCE {
				t, ok = nil, false
				return
			}
			panic(r)
		}
	}()
	switch x := x.(type) {
	case *ast.Ident:
		v := e.ident(x)
		return v.typ, v.isType
	case *ast.SelectorExpr:
		v := e.selector(x)
		return v.typ, v.isType
	case *ast.ParenExpr:
		return e.tryType(x.X)
	case *ast.StarExpr, *ast.ArrayType:
		return e.evalType(x), true
	}
	return nil, false
}

func (e *evalEnv) quant(q string, x *ast.CallExpr) tv {
	fl, ok := x.Args[0].(*ast.FuncLit)
	if !ok {
		e.fail(x, "bad quantifier")
	}
	c := e.child()
	c.nquant = e.nquant + 1
	var decls []string
	var ranges []string
	for _, f := range fl.Type.Params.List {
		t := c.evalType(f.Type)
		for _, n := range f.Names {
			bn := e.g.fresh("q_" + n.Name)
			c.bound[n.Name] = tv{term: bn, typ: t}
			decls = append(decls, fmt.Sprintf("(%s %s)", bn, e.g.sortOf(t)))
			if rf := rangeFact(t, bn); rf != "" {
				if bits, _, _ := intBits(t); bits < 64 {
					ranges = append(ranges, rf)
				}
			}
		}
	}
	// Triggers of the form s[i] (s a slice in memory, i a variable of this quantifier) are re-expressed over the
	// absolute slot index j = off(s)+i, so that the pattern is (select row j) without arithmetic inside it.
	for _, t := range x.Args[1:] {
		pc, ok := t.(*ast.CallExpr)
		if !ok {
			continue
		}
		for _, pa := range pc.Args {
			ie, ok := pa.(*ast.IndexExpr)
			if !ok {
				continue
			}
			id, ok := ie.Index.(*ast.Ident)
			if !ok {
				continue
			}
			bv, isBound := c.bound[id.Name]
			if !isBound || !strings.HasPrefix(bv.term, "q_") || mentionsIdent(ie.X, id.Name) {
				continue
			}
			sv, okS := c.tryEvalSlice(ie.X)
			if !okS {
				continue
			}
			st, isSl := sv.typ.Underlying().(*types.Slice)
			if !isSl || sv.spec || slots(st.Elem()) != 1 {
				continue
			}
			// bv.term is the SMT bound variable: from now on it denotes the absolute index j; i = j - off(s)
			c.bound[id.Name] = tv{term: fmt.Sprintf("(- %s (soff %s))", bv.term, sv.term), typ: bv.typ}
		}
	}
	ret := fl.Body.List[0].(*ast.ReturnStmt)
	body := c.evalBool(ret.Results[0])
	var groups []string
	for _, t := range x.Args[1:] {
		pc, ok := t.(*ast.CallExpr)
		if !ok {
			e.fail(x, "bad trigger")
		}
		var pats []string
		for _, pa := range pc.Args {
			v := c.value(c.eval(pa))
			pats = append(pats, v.term)
		}
		groups = append(groups, " :pattern ("+strings.Join(pats, " ")+")")
	}
	if len(ranges) > 0 {
		rc := "(and " + strings.Join(ranges, " ") + ")"
		if q == "forall" {
			body = fmt.Sprintf("(=> %s %s)", rc, body)
		} else {
			body = fmt.Sprintf("(and %s %s)", rc, body)
		}
	}
	if len(groups) > 0 {
		// several {..} groups are alternative patterns; the terms inside one group form a multi-pattern
		body = fmt.Sprintf("(! %s%s)", body, strings.Join(groups, ""))
	}
	return tv{term: fmt.Sprintf("(%s (%s) %s)", q, strings.Join(decls, " "), body), typ: tBool}
}

func mentionsIdent(x ast.Expr, name string) bool {
	found := false
	ast.Inspect(x, func(n ast.Node) bool {
		if id, ok := n.(*ast.Ident); ok && id.Name == name {
			found = true
		}
		return !found
	})
	return found
}

func (e *evalEnv) tryEvalValue(x ast.Expr) (v tv, ok bool) {
	defer func() {
		if r := recover(); r != nil {
			if _, isCE := r.(contractError); isCE {
				ok = false
				return
			}
			panic(r)
		}
	}()
	return e.value(e.eval(x)), true
}

func (e *evalEnv) tryEvalSlice(x ast.Expr) (v tv, ok bool) {
	defer func() {
		if r := recover(); r != nil {
			if _, isCE := r.(contractError); isCE {
				ok = false
				return
			}
			panic(r)
		}
	}()
	v = e.value(e.eval(x))
	return v, v.typ != nil
}

// splitConj splits a top-level conjunction of an expression into its conjuncts (so that failures name one conjunct)
func splitConj(x ast.Expr) []ast.Expr {
	if p, ok := x.(*ast.ParenExpr); ok {
		return splitConj(p.X)
	}
	if b, ok := x.(*ast.BinaryExpr); ok && b.Op == token.LAND {
		return append(splitConj(b.X), splitConj(b.Y)...)
	}
	return []ast.Expr{x}
}

// ---------- name resolution inside a function under verification ----------

func (a *Act) fnNames(phiEnv map[ssa.Value]string, results []string, st *State) func(string, *evalEnv) (tv, bool) {
	return func(name string, e *evalEnv) (tv, bool) {
		if v, ok := a.lets[name]; ok {
			return v, true
		}
		// results
		sig := a.fn.Signature
		if results != nil {
			nres := sig.Results().Len()
			var rnames []string
			if a.ct != nil {
				rnames = a.ct.ResultNames
			}
			for i := 0; i < nres; i++ {
				rn := sig.Results().At(i).Name()
				if i < len(rnames) {
					rn = rnames[i]
				}
				match := rn == name && rn != "" && rn != "_"
				if !match && name == "result" && (nres == 1 || i == 0 && !isErrorType(sig.Results().At(0).Type())) {
					match = true
				}
				if !match && name == fmt.Sprintf("result%d", i) {
					match = true
				}
				if !match && name == "err" && rn == "" && i == nres-1 && isErrorType(sig.Results().At(i).Type()) {
					match = true
				}
				if match {
					return tv{term: results[i], typ: sig.Results().At(i).Type()}, true
				}
			}
		}
		// loop phis by source name
		if phiEnv != nil {
			for v, t := range phiEnv {
				if phi, ok := v.(*ssa.Phi); ok && phi.Comment == name {
					return tv{term: t, typ: phi.Type()}, true
				}
			}
		}
		// entry state (old(...)): a parameter is its value at entry, whatever was assigned to it later
		if phiEnv == nil && results == nil && st == a.g.entry {
			for i, p := range a.fn.Params {
				if p.Name() == name && i < len(a.args) {
					return tv{term: a.args[i], typ: p.Type()}, true
				}
			}
		}
		// outside loop invariants: the most recent binding of the source variable (a later assignment in the loop body wins
		// over the phi the variable has at the loop head)
		isParam := false
		for _, p := range a.fn.Params {
			if p.Name() == name {
				isParam = true
			}
		}
		for _, fv := range a.fn.FreeVars {
			if fv.Name() == name {
				isParam = true
			}
		}
		if phiEnv == nil && st != a.g.entry && !isParam {
			if v, ok := a.dbg[name]; ok {
				_, isPhi := v.(*ssa.Phi)
				switch v.Type().Underlying().(type) {
				case *types.Array, *types.Struct:
					isPhi = true // aggregates are addressed through their cells, not through a loaded copy
				}
				if !isPhi && a.loopPhiNamed(name) {
					if t, bound := a.env[v]; bound {
						return tv{term: t, typ: v.Type()}, true
					}
				}
			}
		}
		// an enclosing loop's variables (not phis of the loop whose invariant is evaluated): their current values
		if _, inPhi := func() (int, bool) {
			for v := range phiEnv {
				if phi, ok := v.(*ssa.Phi); ok && phi.Comment == name {
					return 0, true
				}
			}
			return 0, false
		}(); !inPhi {
			var found []ssa.Value
			for v := range a.env {
				if phi, ok := v.(*ssa.Phi); ok && phi.Comment == name && name != "" {
					found = append(found, v)
				}
			}
			if len(found) == 1 {
				return tv{term: a.env[found[0]], typ: found[0].Type()}, true
			}
		}
		if name == "rangeval" {
			cands := map[ssa.Value]bool{}
			for v := range phiEnv {
				cands[v] = true
			}
			if n := func() int {
				c := 0
				for v := range cands {
					if phi, ok := v.(*ssa.Phi); ok && phi.Comment == "rangeindex" {
						c++
					}
				}
				return c
			}(); n == 0 {
				for v := range a.env {
					cands[v] = true
				}
			}
			for v := range cands {
				phi, ok := v.(*ssa.Phi)
				if !ok || phi.Comment != "rangeindex" {
					continue
				}
				for _, ref := range *phi.Referrers() {
					bo, ok := ref.(*ssa.BinOp)
					if !ok || bo.Referrers() == nil {
						continue
					}
					for _, r2 := range *bo.Referrers() {
						if ia, ok := r2.(*ssa.IndexAddr); ok && ia.Index == ssa.Value(bo) {
							if t, bound := a.env[ia.X]; bound {
								return tv{term: t, typ: ia.X.Type()}, true
							}
							return tv{term: a.val(ia.X), typ: ia.X.Type()}, true
						}
					}
				}
			}
		}
		if name == "rangeindex" || name == "rangeval" {
			// the loop was written as an index loop (for i := 0; i < len(s); i++ { ... s[i] ... }) where the contract speaks
			// of a range loop: rangeindex is the index of the element processed last, i.e. i-1 at the loop head, rangeval the
			// slice indexed by i. (A renaming of the contract's vocabulary; the clauses stay obligations.)
			var counters []*ssa.Phi
			termOf := map[*ssa.Phi]string{}
			scan := func(v ssa.Value, term string) {
				phi, ok := v.(*ssa.Phi)
				if !ok || len(phi.Edges) != 2 {
					return
				}
				if b, isInt := phi.Type().Underlying().(*types.Basic); !isInt || b.Info()&types.IsInteger == 0 {
					return
				}
				zero, step := false, false
				for _, ed := range phi.Edges {
					if c, ok := ed.(*ssa.Const); ok && c.Value != nil && c.Value.ExactString() == "0" {
						zero = true
					}
					if bo, ok := ed.(*ssa.BinOp); ok && bo.Op == token.ADD && bo.X == ssa.Value(phi) {
						if c, ok := bo.Y.(*ssa.Const); ok && c.Value != nil && c.Value.ExactString() == "1" {
							step = true
						}
					}
				}
				if zero && step {
					counters = append(counters, phi)
					termOf[phi] = term
				}
			}
			for v, t := range phiEnv {
				scan(v, t)
			}
			if len(counters) == 0 {
				// an enclosing loop's counter (inner loop invariants, loop lets, cuts)
				for v, t := range a.env {
					scan(v, t)
				}
			}
			for v := range map[ssa.Value]bool{} {
				phi, ok := v.(*ssa.Phi)
				if !ok || len(phi.Edges) != 2 {
					continue
				}
				if b, isInt := phi.Type().Underlying().(*types.Basic); !isInt || b.Info()&types.IsInteger == 0 {
					continue
				}
				zero, step := false, false
				for _, ed := range phi.Edges {
					if c, ok := ed.(*ssa.Const); ok && c.Value != nil && c.Value.ExactString() == "0" {
						zero = true
					}
					if bo, ok := ed.(*ssa.BinOp); ok && bo.Op == token.ADD && bo.X == ssa.Value(phi) {
						if c, ok := bo.Y.(*ssa.Const); ok && c.Value != nil && c.Value.ExactString() == "1" {
							step = true
						}
					}
				}
				if zero && step {
					counters = append(counters, phi)
				}
			}
			if len(counters) == 1 {
				phi := counters[0]
				if name == "rangeindex" {
					return tv{term: fmt.Sprintf("(- %s 1)", termOf[phi]), typ: tInt}, true
				}
				var xs []ssa.Value
				for _, ref := range *phi.Referrers() {
					if ia, ok := ref.(*ssa.IndexAddr); ok && ia.Index == ssa.Value(phi) {
						dup := false
						for _, x := range xs {
							dup = dup || x == ia.X
						}
						if !dup {
							xs = append(xs, ia.X)
						}
					}
				}
				if len(xs) == 1 {
					if t, bound := a.env[xs[0]]; bound {
						return tv{term: t, typ: xs[0].Type()}, true
					}
					return tv{term: a.val(xs[0]), typ: xs[0].Type()}, true
				}
			}
		}
		// address-taken locals (including named results and captured variables): current content of the cell
		for _, b := range a.fn.Blocks {
			for _, in := range b.Instrs {
				if al, ok := in.(*ssa.Alloc); ok && al.Comment == name {
					if t, bound := a.env[al]; bound {
						et := al.Type().Underlying().(*types.Pointer).Elem()
						if cv, ok := a.g.constCell[t]; ok {
							return tv{term: cv, typ: et}, true
						}
						return e.fromAddr(et, fmt.Sprintf("(pref %s)", t), fmt.Sprintf("(poff %s)", t)), true
					}
				}
			}
		}
		for i, p := range a.fn.Params {
			if p.Name() == name {
				return tv{term: a.args[i], typ: p.Type()}, true
			}
		}
		for _, fv := range a.fn.FreeVars {
			if fv.Name() == name {
				if t, ok := a.env[fv]; ok {
					et := fv.Type().Underlying().(*types.Pointer).Elem()
					return e.fromAddr(et, fmt.Sprintf("(pref %s)", t), fmt.Sprintf("(poff %s)", t)), true
				}
			}
		}
		if v, ok := a.dbg[name]; ok {
			if _, isPhi := v.(*ssa.Phi); !isPhi || phiEnv == nil {
				return tv{term: a.val(v), typ: v.Type()}, true
			}
			return tv{term: a.val(v), typ: v.Type()}, true
		}
		return tv{}, false
	}
}

// loopPhiNamed: some loop header has a phi for the source variable (the variable is assigned inside a loop)
func (a *Act) loopPhiNamed(name string) bool {
	for _, b := range a.fn.Blocks {
		for _, in := range b.Instrs {
			phi, ok := in.(*ssa.Phi)
			if !ok {
				break
			}
			if phi.Comment == name {
				return true
			}
		}
	}
	return false
}

func findMacro(name string) *Macro {
	for _, m := range macros {
		if m.Name == name {
			return m
		}
	}
	return nil
}

func isErrorType(t types.Type) bool { return t.String() == "error" }

func (a *Act) newEnv(st *State, phiEnv map[ssa.Value]string, results []string) *evalEnv {
	g := a.g
	e := &evalEnv{g: g, a: a, st: st, old: g.entry, bound: map[string]tv{}, entryNext: g.entry.Next}
	if a.fn.Pkg != nil {
		e.pkg = a.fn.Pkg.Pkg
	} else if a.fn.Parent() != nil && a.fn.Parent().Pkg != nil {
		e.pkg = a.fn.Parent().Pkg.Pkg
	}
	e.names = a.fnNames(phiEnv, results, st)
	e.oldNames = a.fnNames(nil, nil, g.entry)
	return e
}

// evalClauseAt evaluates a boolean clause in the given state; returns its top-level conjuncts.
func (a *Act) evalClauseAt(cl *Clause, st *State, phiEnv map[ssa.Value]string, results []string) (out []string) {
	defer func() {
		if r := recover(); r != nil {
			if ce, ok := r.(contractError); ok {
				panic(contractError{fmt.Sprintf("%s: %s  [in: %s]", cl.Where, ce.msg, cl.Text)})
			}
			panic(r)
		}
	}()
	e := a.newEnv(st, phiEnv, results)
	for _, c := range splitConj(cl.Expr) {
		out = append(out, e.evalBool(c))
	}
	return out
}

func (a *Act) evalTermAt(cl *Clause, st *State, phiEnv map[ssa.Value]string) string {
	defer func() {
		if r := recover(); r != nil {
			if ce, ok := r.(contractError); ok {
				panic(contractError{fmt.Sprintf("%s: %s  [in: %s]", cl.Where, ce.msg, cl.Text)})
			}
			panic(r)
		}
	}()
	e := a.newEnv(st, phiEnv, nil)
	return e.value(e.eval(cl.Expr)).term
}

// ---------- evaluation of a callee's contract at a call site ----------

type callSite struct {
	a    *Act
	ct   *Contract
	fn   *ssa.Function
	args []string
	res  []string
	pre  *State
	post *State
	lets map[string]tv
	specArg map[int]bool // argument i is already a specification-level value (SMap / SSeq term), not a heap reference
}

func (cs *callSite) env(st *State, old *State) *evalEnv {
	a := cs.a
	g := a.g
	e := &evalEnv{g: g, a: a, st: st, old: old, bound: map[string]tv{}, entryNext: cs.pre.Next, atCallSite: true}
	e.pkg = g.eng.pkgByPath(cs.ct.PkgPath)
	sig := g.eng.signatureFor(cs.ct, cs.fn)
	names := func(name string, e *evalEnv) (tv, bool) {
		if v, ok := cs.lets[name]; ok {
			return v, true
		}
		if sig == nil {
			return tv{}, false
		}
		np := 0
		if sig.recv != nil {
			if sig.recv.Name() == name {
				return tv{term: cs.args[0], typ: sig.recv.Type()}, true
			}
			np = 1
		}
		for i := 0; i < sig.params.Len(); i++ {
			if sig.params.At(i).Name() == name || name == fmt.Sprintf("arg%d", i) {
				pt := sig.params.At(i).Type()
				if cs.specArg[np+i] {
					return tv{term: cs.args[np+i], typ: pt, smap: isSpecMapType(pt), spec: isSpecSeqType(pt)}, true
				}
				return tv{term: cs.args[np+i], typ: pt}, true
			}
		}
		for i, fv := range sig.freeVars {
			if fv.Name() == name {
				t := cs.args[np+sig.params.Len()+i]
				et := fv.Type().Underlying().(*types.Pointer).Elem()
				if cv, ok := g.constCell[t]; ok {
					return tv{term: cv, typ: et}, true
				}
				return e.fromAddr(et, fmt.Sprintf("(pref %s)", t), fmt.Sprintf("(poff %s)", t)), true
			}
		}
		if cs.res != nil {
			nres := sig.results.Len()
			for i := 0; i < nres && i < len(cs.res); i++ {
				rn := sig.results.At(i).Name()
				if i < len(cs.ct.ResultNames) {
					rn = cs.ct.ResultNames[i]
				}
				match := rn == name && rn != "" && rn != "_"
				if !match && name == "result" && (nres == 1 || i == 0 && !isErrorType(sig.results.At(0).Type())) {
					match = true
				}
				if !match && name == fmt.Sprintf("result%d", i) {
					match = true
				}
				if !match && name == "err" && rn == "" && i == nres-1 && isErrorType(sig.results.At(i).Type()) {
					match = true
				}
				if match {
					return tv{term: cs.res[i], typ: sig.results.At(i).Type()}, true
				}
			}
		}
		return tv{}, false
	}
	e.names = names
	e.oldNames = names
	return e
}

func (cs *callSite) ensureLets() {
	if cs.lets != nil {
		return
	}
	cs.lets = map[string]tv{}
	for _, l := range cs.ct.Lets {
		e := cs.env(cs.pre, nil)
		v := e.value(e.eval(l.Expr))
		cs.lets[l.Label] = v
	}
}

func (cs *callSite) evalClause(cl *Clause, st *State, old *State) (out []string) {
	defer func() {
		if r := recover(); r != nil {
			if ce, ok := r.(contractError); ok {
				panic(contractError{fmt.Sprintf("%s: %s  [in: %s] (at call in %s)", cl.Where, ce.msg, cl.Text, shortFn(cs.a.fn))})
			}
			panic(r)
		}
	}()
	cs.ensureLets()
	e := cs.env(st, old)
	for _, c := range splitConj(cl.Expr) {
		out = append(out, e.evalBool(c))
	}
	return out
}

func (cs *callSite) evalTerm(cl *Clause, st *State) string {
	cs.ensureLets()
	e := cs.env(st, nil)
	return e.value(e.eval(cl.Expr)).term
}

func (cs *callSite) modRefKinds(st *State) []modTarget {
	var out []modTarget
	for _, m := range cs.ct.Modifies {
		cs.ensureLets()
		e := cs.env(st, nil)
		v := e.value(e.eval(m.Expr))
		mt := modTarget{kinds: targetKinds(v.typ)}
		if sl, ok := v.typ.Underlying().(*types.Slice); ok {
			n := slots(sl.Elem())
			mt.off = fmt.Sprintf("(soff %s)", v.term)
			mt.len = mulConst(n, fmt.Sprintf("(sllen %s)", v.term))
		}
		if pt, ok := v.typ.Underlying().(*types.Pointer); ok {
			if n := slots(pt.Elem()); n <= 40 {
				mt.off = fmt.Sprintf("(poff %s)", v.term)
				mt.len = fmt.Sprint(n)
				mt.slotsK = map[string][]int{}
				kindSlots(pt.Elem(), 0, mt.slotsK)
			} else {
				mt.off = fmt.Sprintf("(poff %s)", v.term)
				mt.len = fmt.Sprint(n)
			}
		}
		out = append(out, mt)
	}
	return out
}

func (cs *callSite) recvSliceRefs(st *State) []string {
	if !cs.ct.ModifiesRecvSlices || cs.fn == nil || len(cs.args) == 0 {
		return nil
	}
	pt, ok := cs.fn.Params[0].Type().Underlying().(*types.Pointer)
	if !ok {
		return nil
	}
	var out []string
	for _, off := range sliceSlots(pt.Elem(), 0) {
		out = append(out, fmt.Sprintf("(sref %s)", sel(st.H["L"], fmt.Sprintf("(pref %s)", cs.args[0]), fmt.Sprintf("(+ (poff %s) %d)", cs.args[0], off))))
	}
	return out
}

// modRanges: the callee's modifies targets as (object, slot range) at the call
func (cs *callSite) modRanges(st *State) []modRange {
	var out []modRange
	for _, m := range cs.ct.Modifies {
		cs.ensureLets()
		e := cs.env(st, nil)
		v := e.value(e.eval(m.Expr))
		r, ok := rangeOf(v)
		if !ok {
			panic(contractError{fmt.Sprintf("%s: modifies target has no reference: %s", m.Where, m.Text)})
		}
		out = append(out, r)
	}
	for _, r := range cs.recvSliceRefs(st) {
		out = append(out, modRange{r, "", ""})
	}
	return out
}

func (cs *callSite) modRefs(st *State) []string {
	var out []string
	for _, m := range cs.ct.Modifies {
		cs.ensureLets()
		e := cs.env(st, nil)
		v := e.value(e.eval(m.Expr))
		r, ok := refOf(v)
		if !ok {
			panic(contractError{fmt.Sprintf("%s: modifies target has no reference: %s", m.Where, m.Text)})
		}
		out = append(out, r)
	}
	return append(out, cs.recvSliceRefs(st)...)
}

var specAppRe = regexp.MustCompile(`\((spec_[A-Za-z0-9_]+) `)

func stringLit(x ast.Expr) string {
	if bl, ok := x.(*ast.BasicLit); ok && bl.Kind == token.STRING {
		if v, err := strconv.Unquote(bl.Value); err == nil {
			return v
		}
	}
	panic(contractError{"string literal expected"})
}

// resolveClosure: the closure of function fname (short name) that the function value v provably is in the current
// context, or nil.
func (a *Act) resolveClosure(v string, fname string) *closureInfo {
	g := a.g
	if ci := g.closures[v]; ci != nil {
		if shortFn(ci.fn) == fname {
			return ci
		}
		return nil
	}
	var names []string
	for n, ci := range g.closures {
		if shortFn(ci.fn) == fname {
			names = append(names, n)
		}
	}
	sort.Strings(names)
	reach := a.curReach
	if reach == "" {
		reach = "true"
	}
	seen := map[*closureInfo]bool{}
	for _, n := range names {
		ci := g.closures[n]
		if seen[ci] {
			continue
		}
		seen[ci] = true
		if g.provable(reach, fmt.Sprintf("(= %s %s)", v, n)) {
			return ci
		}
	}
	return nil
}

// ownProofOnly: a clause that talks about the calls made or the closures created by the function it belongs to
// (called, callarg, callresult, closureOf, captured) means something only while that function is verified; where the
// function's contract is used at a call site such a clause is not handed to the caller.
type ownProofOnly struct{}
