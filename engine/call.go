package main

import (
	"fmt"
	"go/types"
	"sort"
	"strings"

	"golang.org/x/tools/go/ssa"
)

func (a *Act) setTuple(v ssa.Value, vs []string) {
	a.tuples[v] = vs
	a.env[v] = "TUPLE"
}

func (a *Act) bindResults(in ssa.Value, vs []string) {
	if in == nil {
		return
	}
	if tup, ok := in.Type().(*types.Tuple); ok {
		if tup.Len() == 0 {
			return
		}
		if tup.Len() != len(vs) {
			panic(fmt.Sprintf("result arity: %d vs %d at %s", tup.Len(), len(vs), in))
		}
		var names []string
		for i, v := range vs {
			names = append(names, a.g.def(a.nm(fmt.Sprintf("%s_%d", in.Name(), i)), a.g.sortOf(tup.At(i).Type()), v))
		}
		a.setTuple(in, names)
		return
	}
	if len(vs) == 1 {
		a.bind(in, vs[0])
	}
}

// havocCall: the callee is unknown to the verifier. Results are arbitrary (well-formed) values.
// pure=false additionally havocs the whole heap (subject to nothing): the sound default.
func (a *Act) havocCall(in ssa.Value, instr ssa.Instruction, st *State, reach string, why string, pure bool) {
	g := a.g
	if !pure {
		g.note("HAVOC-HEAP call (%s) in %s", why, shortFn(a.fn))
		if g.checkFrame {
			g.oblige("frame", a.srcDetail(instr), reach, "false", a.pos(instr.Pos()), "call to a function with unknown effects: "+why)
		}
		ns := g.freshState(a.nm("aftercall"))
		g.assumeIf(reach, fmt.Sprintf("(>= %s %s)", ns.Next, st.Next))
		escOld := g.escNow(st)
		locksOld := ""
		if g.trackLocks {
			locksOld = g.locksNow(st)
		}
		*st = *ns
		if g.trackLocks {
			// the count of mutexes this function holds is its own bookkeeping: unknown code does not change it
			st.H["G"] = g.def("HG", heapSort["G"], sto(st.H["G"], ghostLockRef, "0", locksOld))
		}
		if g.trackEsc {
			g.assumeIf(reach, fmt.Sprintf("(>= %s %s)", g.escNow(st), escOld))
		}
	} else {
		g.note("havoc-result call (%s) in %s", why, shortFn(a.fn))
		// may allocate: results may be fresh
		nn := g.havoc(a.nm("next_after"), "Int")
		g.assumeIf(reach, fmt.Sprintf("(>= %s %s)", nn, st.Next))
		old := st.clone()
		st.Next = nn
		for _, k := range heapKinds {
			st.H[k] = g.framedHeap(a.nm("aftercall"), k, old.H[k], old.Next, nil, true)
		}
		g.escHavoc(st, reach)
	}
	if in == nil {
		return
	}
	if tup, ok := in.Type().(*types.Tuple); ok {
		if tup.Len() == 0 {
			return
		}
		a.havocValue(in, reach, st)
		return
	}
	if in.Type() != nil {
		a.bindHavoc(in, reach, st)
	}
}

func (a *Act) onStack(fn *ssa.Function) bool {
	for x := a; x != nil; x = x.parent {
		if x.fn == fn {
			return true
		}
	}
	return false
}

// call executes a call (also used for deferred calls, with in == nil for the value)
func (a *Act) call(in *ssa.Call, c *ssa.CallCommon, st *State, reach string) {
	var args []string
	for _, x := range c.Args {
		args = append(args, a.val(x))
	}
	var recv string
	if c.IsInvoke() || !isConstLike(c.Value) {
		recv = a.val(c.Value)
	}
	a.doCall(in, in, c, recv, args, st, reach)
	if (a.top || a.letsAtEntry) && a.ct != nil && len(a.ct.Cuts) > 0 {
		// cuts anchored on a call rather than on a line of text:  after `call:F` ...  (F: the callee's name as written in
		// contracts, or the name of the function-valued variable / parameter that is called)
		var names []string
		if fn := c.StaticCallee(); fn != nil {
			names = append(names, "call:"+shortFn(fn), "call:"+fn.Name())
		} else if c.IsInvoke() {
			names = append(names, "call:"+c.Method.Name())
		} else if c.Value != nil {
			names = append(names, "call:"+c.Value.Name())
			if p, ok := c.Value.(*ssa.Parameter); ok {
				names = append(names, "call:"+p.Name())
			}
		}
		a.fireNamedCuts(names, in, st, reach)
	}
}

func (a *Act) doCall(res ssa.Value, instr ssa.Instruction, c *ssa.CallCommon, recv string, args []string, st *State, reach string) {
	g := a.g
	eng := g.eng
	if res != nil {
		if t, ok := res.Type().(*types.Tuple); ok && t.Len() == 0 {
			res = nil
		}
	}
	if c.IsInvoke() {
		a.safety("nil-invoke", instr, reach, fmt.Sprintf("(not (= %s nilIface))", recv), "method call on nil interface")
		a.invoke(res, instr, c, recv, args, st, reach)
		return
	}
	switch fn := c.Value.(type) {
	case *ssa.Builtin:
		a.builtin(res, instr, c, fn, args, st, reach)
		return
	case *ssa.Function:
		a.staticCall(res, instr, fn, args, st, reach)
		return
	case *ssa.MakeClosure:
		ci := g.closures[a.env[fn]]
		a.closureCall(res, instr, ci, args, st, reach)
		return
	}
	// dynamic call through a function value
	a.safety("nil-func", instr, reach, fmt.Sprintf("(not (= %s nilIface))", recv), "call of nil function value")
	if info := g.fnResults[recv]; info != nil {
		// the value is the function a contracted call returned, and that result has a contract of its own
		a.callByContractSeed(res, instr, nil, info.ct, append([]string{recv}, args...), st, reach, info.orig)
		return
	}
	if ci, ok := g.closures[recv]; ok {
		a.closureCall(res, instr, ci, args, st, reach)
		return
	}
	// a function value that is a known top-level function (e.g. a parameter bound by specialization)
	if f := eng.funcByTerm[recv]; f != nil {
		a.staticCall(res, instr, f, args, st, reach)
		return
	}
	if g.inPlace() && a.dynDispatch(res, instr, c, recv, args, st, reach) {
		return
	}
	a.unknownFnCall(res, instr, c, recv, args, st, reach)
}

// unknownFnCall: a call through a function value about which nothing is known but its type: the contract declared for
// that named function type ("contract type T"), else a sound havoc.
func (a *Act) unknownFnCall(res ssa.Value, instr ssa.Instruction, c *ssa.CallCommon, recv string, args []string, st *State, reach string) {
	eng := a.g.eng
	// the function value is a parameter of the function being executed, and a contract is declared for it
	if p, ok := c.Value.(*ssa.Parameter); ok {
		if fp := eng.contracts["fnparam "+shortFn(a.fn)+"."+p.Name()]; fp != nil {
			// the parameters of the enclosing function may be named in the contract
			seed := map[string]tv{}
			for j, q := range a.fn.Params {
				if j < len(a.args) && q.Name() != p.Name() {
					seed[q.Name()] = tv{term: a.args[j], typ: q.Type()}
				}
			}
			a.callByContractSeed(res, instr, nil, fp, append([]string{recv}, args...), st, reach, seed)
			return
		}
	}
	// the contract of a function type is a model of caller-supplied values used by proofs that execute callee bodies in
	// place (clause "inlines"); elsewhere a call through an unknown function value stays a sound havoc
	if fp := eng.fnTypeContract(c.Value.Type()); fp != nil && (a.g.inPlace() || fp.Trusted) {
		a.callByContract(res, instr, nil, fp, append([]string{recv}, args...), st, reach)
		return
	}
	a.havocCall(res, instr, st, reach, "dynamic call "+c.Value.Name()+" : "+c.Value.Type().String(), eng.assumePureDynamic)
}

// dynDispatch: a call through a function value while callee bodies are executed in place (inlines): the value is compared
// with every closure created so far in this proof context that has the same signature; for each the closure's own contract
// (or body) is used; if it is none of them, the call is one through an unknown value.
func (a *Act) dynDispatch(res ssa.Value, instr ssa.Instruction, c *ssa.CallCommon, recv string, args []string, st *State, reach string) bool {
	g := a.g
	sig, ok := c.Value.Type().Underlying().(*types.Signature)
	if !ok {
		return false
	}
	var names []string
	for n, ci := range g.closures {
		if types.Identical(ci.fn.Signature, sig) || (ci.fn.Signature.Params().Len() == sig.Params().Len() && types.Identical(types.NewSignatureType(nil, nil, nil, ci.fn.Signature.Params(), ci.fn.Signature.Results(), false), types.NewSignatureType(nil, nil, nil, sig.Params(), sig.Results(), false))) {
			names = append(names, n)
		}
	}
	// top-level functions used as values in this proof context (e.g. WithRapidCommit put into a modifier list)
	var fnames []string
	for n, f := range g.fnValues {
		if f.Signature.Recv() == nil && f.Signature.Params().Len() == sig.Params().Len() && types.Identical(types.NewSignatureType(nil, nil, nil, f.Signature.Params(), f.Signature.Results(), false), types.NewSignatureType(nil, nil, nil, sig.Params(), sig.Results(), false)) {
			fnames = append(fnames, n)
		}
	}
	sort.Strings(fnames)
	for _, n := range fnames {
		if g.provable(reach, fmt.Sprintf("(= %s %s)", recv, n)) {
			g.note("call through a function value resolved to %s (solver-aided)", shortFn(g.fnValues[n]))
			a.staticCall(res, instr, g.fnValues[n], args, st, reach)
			return true
		}
	}
	if len(names) == 0 {
		if len(fnames) > 0 {
			var neq []string
			for _, n := range fnames {
				neq = append(neq, fmt.Sprintf("(not (= %s %s))", recv, n))
			}
			if g.provable(reach, "(and "+strings.Join(neq, " ")+")") {
				a.unknownFnCall(res, instr, c, recv, args, st, reach)
				return true
			}
		}
		return false
	}
	sort.Slice(names, func(i, j int) bool {
		if g.closures[names[i]].id != g.closures[names[j]].id {
			return g.closures[names[i]].id < g.closures[names[j]].id
		}
		return names[i] < names[j]
	})
	// one name per closure (conversions between function types register the same closure under a second term)
	{
		var uniq []string
		seen := map[*closureInfo]bool{}
		for _, n := range names {
			if !seen[g.closures[n]] {
				seen[g.closures[n]] = true
				uniq = append(uniq, n)
			}
		}
		names = uniq
	}
	// solver-aided resolution of the callee: in the common case the value is provably one particular closure (the k-th
	// call through a function value usually is the k-th closure created), or provably none of them
	if len(names) > 0 {
		// first guess: the closure created right after the one the previous call was resolved to (modifier lists are
		// usually called in the order they were built), else the k-th closure for the k-th call
		guess := names[g.dynCount%len(names)]
		if g.dynLast != "" {
			for i, n := range names {
				if n == g.dynLast && i+1 < len(names) {
					guess = names[i+1]
				}
			}
		}
		g.dynCount++
		order := append([]string{guess}, names...)
		tried := map[string]bool{}
		for i, n := range order {
			if tried[n] || i > 1 && g.dynQueries > 400 {
				continue
			}
			tried[n] = true
			if g.provable(reach, fmt.Sprintf("(= %s %s)", recv, n)) {
				g.note("call through a function value resolved to %s (solver-aided)", shortFn(g.closures[n].fn))
				g.dynLast = n
				g.dynUnresolved = 0
				a.closureCall(res, instr, g.closures[n], args, st, reach)
				return true
			}
			if i == 0 {
				var neq []string
				for _, m := range names {
					neq = append(neq, fmt.Sprintf("(not (= %s %s))", recv, m))
				}
				for _, m := range fnames {
					neq = append(neq, fmt.Sprintf("(not (= %s %s))", recv, m))
				}
				if g.provable(reach, "(and "+strings.Join(neq, " ")+")") {
					g.note("call through a function value resolved to none of the closures created by the call (solver-aided)")
					g.dynUnresolved = 0
					a.unknownFnCall(res, instr, c, recv, args, st, reach)
					return true
				}
			}
		}
	}
	g.dynUnresolved++
	if g.dynUnresolved >= 2 {
		g.dynGaveUp = true
	}
	if true {
		// neither "it is this closure" nor "it is none of them" is provable: the call has unknown effects (sound; the
		// case split over all candidates is not generated - a context in which the callee cannot be determined is one in
		// which the proof has already been lost)
		a.havocCall(res, instr, st, reach, "function value not resolved to a closure of this proof context", false)
		return true
	}
	type outcome struct {
		cond string
		vals []string
		st   *State
	}
	var outs []outcome
	var neq []string
	run := func(cond string, f func(sub *State)) {
		sub := st.clone()
		oldEnv, hadEnv := "", false
		var oldTup []string
		if res != nil {
			oldEnv, hadEnv = a.env[res]
			oldTup = a.tuples[res]
		}
		f(sub)
		o := outcome{cond: cond, st: sub}
		if res != nil {
			if _, isTup := res.Type().(*types.Tuple); isTup {
				o.vals = a.tuples[res]
			} else {
				o.vals = []string{a.env[res]}
			}
			if hadEnv {
				a.env[res] = oldEnv
			} else {
				delete(a.env, res)
			}
			if oldTup != nil {
				a.tuples[res] = oldTup
			} else {
				delete(a.tuples, res)
			}
		}
		outs = append(outs, o)
	}
	for _, n := range names {
		ci := g.closures[n]
		cond := g.def(a.nm("dyn"), "Bool", fmt.Sprintf("(and %s (= %s %s))", reach, recv, n))
		neq = append(neq, fmt.Sprintf("(not (= %s %s))", recv, n))
		run(cond, func(sub *State) { a.closureCall(res, instr, ci, args, sub, cond) })
	}
	for _, n := range fnames {
		f := g.fnValues[n]
		cond := g.def(a.nm("dyn"), "Bool", fmt.Sprintf("(and %s (= %s %s))", reach, recv, n))
		neq = append(neq, fmt.Sprintf("(not (= %s %s))", recv, n))
		run(cond, func(sub *State) { a.staticCall(res, instr, f, args, sub, cond) })
	}
	other := g.def(a.nm("dyn_other"), "Bool", fmt.Sprintf("(and %s %s)", reach, strings.Join(neq, " ")))
	run(other, func(sub *State) { a.unknownFnCall(res, instr, c, recv, args, sub, other) })
	var sts []*State
	var conds []string
	for _, o := range outs {
		sts = append(sts, o.st)
		conds = append(conds, o.cond)
	}
	*st = *g.mergeStateList(sts, conds)
	if res != nil {
		n := len(outs[0].vals)
		vs := make([]string, n)
		for i := 0; i < n; i++ {
			term := outs[len(outs)-1].vals[i]
			for j := len(outs) - 2; j >= 0; j-- {
				term = fmt.Sprintf("(ite %s %s %s)", outs[j].cond, outs[j].vals[i], term)
			}
			vs[i] = term
		}
		a.bindResults(res, vs)
	}
	return true
}

func (a *Act) closureCall(res ssa.Value, instr ssa.Instruction, ci *closureInfo, args []string, st *State, reach string) {
	g := a.g
	fn := ci.fn
	if ct := g.eng.contractFor(fn); ct != nil && !ct.Inline {
		a.callByContract(res, instr, fn, ct, append(append([]string{}, args...), ci.bindings...), st, reach)
		return
	}
	if hasLoops(fn) || a.depth >= g.maxDepth || a.onStack(fn) {
		a.havocCall(res, instr, st, reach, "closure with loops/depth "+shortFn(fn), false)
		return
	}
	a.inline(res, instr, fn, args, ci.bindings, st, reach)
}

func (a *Act) staticCall(res ssa.Value, instr ssa.Instruction, fn *ssa.Function, args []string, st *State, reach string) {
	name := shortFn(fn)
	if a.ghostCall(res, instr, fn, args, st, reach) {
		return
	}
	a.callSiteObligations(instr, fn, args, st, reach)
	var rec *callRec
	if top := a.topThroughWrappers(); top != nil {
		// (calls made by the function under verification itself, or by a compiler-generated wrapper it calls - promoted
		// methods of embedded fields)
		if top.lastCall == nil {
			top.lastCall = map[string]*callRec{}
		}
		if r := top.lastCall[name]; r != nil && r.instr != instr {
			r.ambiguous = true
		} else {
			rec = &callRec{fn: fn, args: args, res: res, instr: instr, reach: reach, act: a}
			top.lastCall[name] = rec
		}
	}
	a.staticCall0(res, instr, fn, args, st, reach)
	if rec != nil {
		rec.post = st.clone()
	}
}

func (a *Act) staticCall0(res ssa.Value, instr ssa.Instruction, fn *ssa.Function, args []string, st *State, reach string) {
	g := a.g
	eng := g.eng
	name := shortFn(fn)
	if n, ok := g.forcedInline(fn); ok && !a.onStack(fn) && len(fn.Blocks) > 0 {
		// "inlines" of the contract under verification: the callee's real body is executed in place
		a.inlineN(res, instr, fn, args, nil, st, reach, n)
		return
	}
	if sf := eng.specBySSA(fn); sf != nil && eng.inRepo(fn) && res != nil {
		if ct := eng.contractFor(fn); ct != nil && !ct.Inline {
			// a recursive call inside the specification function under verification: handled through its contract (the
			// induction hypothesis); the value returned is the function's value at these arguments (the function symbol is
			// defined by this very recursion, whose termination is an obligation)
			pre := st.clone()
			a.callByContract(res, instr, fn, ct, args, st, reach)
			if _, isTuple := res.Type().(*types.Tuple); !isTuple && !isSpecSeqType(res.Type()) {
				g.useSpec(sf)
				sig := fn.Signature
				var as []string
				for i, x := range args {
					pt := sig.Params().At(i).Type()
					if isSpecSeqType(pt) {
						x = fmt.Sprintf("(qofarr (select %s (sref %s)) (soff %s) (sllen %s))", pre.H["Q"], x, x, x)
					}
					if isSpecMapType(pt) {
						x = fmt.Sprintf("(mkSMap (select %s %s) (select %s %s))", pre.H["MD"], x, pre.H["MQ"], x)
					}
					as = append(as, x)
				}
				if len(as) > 0 {
					g.assumeIf(reach, fmt.Sprintf("(= %s (%s %s))", a.env[res], sf.smtName, strings.Join(as, " ")))
				}
			}
			return
		}
	}
	if h, ok := externs[name]; ok && h(a, res, instr, args, st, reach) {
		return
	}
	if ct := eng.contractFor(fn); ct != nil && !ct.Inline {
		a.callByContract(res, instr, fn, ct, args, st, reach)
		return
	}
	if len(fn.Blocks) == 0 {
		a.havocCall(res, instr, st, reach, "no body "+name, eng.isPureExtern(name))
		return
	}
	if fn.Synthetic != "" && strings.Contains(fn.Synthetic, "wrapper") {
		// wrappers (promoted methods, bound methods): inline
	}
	if eng.isPureExtern(name) {
		a.havocCall(res, instr, st, reach, "declared pure "+name, true)
		return
	}
	if hasLoops(fn) && g.topCt != nil && g.topCt.UnrollAll > 0 && eng.inRepo(fn) && eng.contractFor(fn) == nil && a.depth < g.maxDepth && !a.onStack(fn) && eng.ssaSize(fn) <= eng.inlineLimit {
		// the function under verification is checked with its loops unrolled ("unroll n"): a small uncontracted helper it
		// calls (e.g. one a loop was extracted into) is executed in place in the same way, unwinding obligation included
		a.inlineN(res, instr, fn, args, nil, st, reach, g.topCt.UnrollAll)
		return
	}
	if hasLoops(fn) {
		if eng.inRepo(fn) {
			// default contract of an uncontracted function with loops: it may modify the object its pointer receiver points
			// to and nothing else that exists; the same default is what the sweep checks the function itself against
			a.callByContract(res, instr, fn, eng.defaultContract(fn), args, st, reach)
			return
		}
		a.havocCall(res, instr, st, reach, "callee has loops and no contract "+name, eng.effectFree(fn))
		return
	}
	if a.depth >= g.maxDepth || a.onStack(fn) || (!eng.inRepoOrUio(fn) && !eng.inlineExtern(name)) {
		why := "depth/recursion "
		if !eng.inRepoOrUio(fn) {
			why = "external "
		}
		a.havocCall(res, instr, st, reach, why+name, eng.effectFree(fn))
		return
	}
	if eng.ssaSize(fn) > eng.inlineLimit {
		a.havocCall(res, instr, st, reach, "too large to inline "+name, eng.effectFree(fn))
		return
	}
	a.inline(res, instr, fn, args, nil, st, reach)
}

// callRec: the arguments and results of the call of a function made by the function under verification (for
// callarg("F", i) / callresult("F", i) in its postconditions; only meaningful when there is one call site)
type callRec struct {
	fn        *ssa.Function
	args      []string
	res       ssa.Value
	instr     ssa.Instruction
	reach     string
	post      *State // the state right after the call returned
	act       *Act   // the activation that made the call (the top one, or a wrapper inlined into it)
	ambiguous bool
}

// topThroughWrappers: the top activation if a is it or is a compiler-generated wrapper (chain) called by it, else nil
func (a *Act) topThroughWrappers() *Act {
	x := a
	for x != nil && !x.top {
		if x.fn.Synthetic == "" {
			return nil
		}
		x = x.parent
	}
	return x
}

// callSiteObligations: "callsite F assert e" clauses of the contract under verification, at this call of F: e over
// arg0, arg1, ... (the actual arguments, receiver first) and the caller's own names, in the state before the call.
func (a *Act) callSiteObligations(instr ssa.Instruction, fn *ssa.Function, args []string, st *State, reach string) {
	g := a.g
	if !a.top || a.ct == nil || len(a.ct.CallSites) == 0 || !g.eng.curModes.Post {
		return
	}
	name := shortFn(fn)
	for _, cs := range a.ct.CallSites {
		if cs.Fn != name {
			continue
		}
		if a.firedSites == nil {
			a.firedSites = map[*CallSite]int{}
		}
		a.firedSites[cs]++
		func() {
			defer wrapClauseErr(cs.Cl)
			e := a.newEnv(st, nil, nil)
			for i, x := range args {
				if i < len(fn.Params) {
					e.bound[fmt.Sprintf("arg%d", i)] = tv{term: x, typ: fn.Params[i].Type()}
				}
			}
			for j, c := range splitConj(cs.Cl.Expr) {
				t := e.evalBool(c)
				g.oblige("callsite", fmt.Sprintf("%s:%s", clauseLabel(cs.Cl, 0, j), a.srcDetail(instr)), reach, t, a.pos(instr.Pos()), "callsite "+cs.Fn+" assert "+cs.Cl.Text)
				g.assumeIf(reach, t)
			}
		}()
	}
}

func (g *Gen) forcedInline(fn *ssa.Function) (int, bool) {
	if g.topCt == nil || g.topCt.Inlines == nil {
		return 0, false
	}
	n, ok := g.topCt.Inlines[shortFn(fn)]
	return n, ok
}

func (a *Act) inline(res ssa.Value, instr ssa.Instruction, fn *ssa.Function, args []string, freeVars []string, st *State, reach string) {
	a.inlineN(res, instr, fn, args, freeVars, st, reach, 0)
}

func (a *Act) inlineN(res ssa.Value, instr ssa.Instruction, fn *ssa.Function, args []string, freeVars []string, st *State, reach string, unroll int) {
	g := a.g
	g.cnt++
	p := a.pos(instr.Pos())
	_ = p
	sub := &Act{g: g, fn: fn, prefix: fmt.Sprintf("%si%d_", a.prefix, g.cnt), depth: a.depth + 1, parent: a, tuples: map[ssa.Value][]string{},
		path: fmt.Sprintf("%s%s>", a.path, shortFn(a.fn))}
	if len(a.path) > 0 {
		sub.path = fmt.Sprintf("%s%s>", a.path, shortFn(a.fn))
	}
	sub.ct = nil
	sub.env = nil
	sub.unrollN = unroll
	if unroll == 0 && hasLoops(fn) {
		// loops of a callee executed in place are cut by the loop invariants of the callee's own contract (proved again in
		// this context); its entry "let"s are evaluated at the call
		lct := g.eng.contractFor(fn)
		if lct == nil || len(lct.Loops) == 0 {
			panic(contractError{fmt.Sprintf("inlines %s: the function has loops: an unroll count or loop invariants in its contract are needed", shortFn(fn))})
		}
		sub.ct = lct
		sub.letsAtEntry = true
	}
	sub.runWithFree(args, freeVars, st, reach)
	if len(sub.rets) == 0 {
		g.note("callee never returns: %s", shortFn(fn))
		// the call does not return: the rest of this path is unreachable
		if res != nil {
			a.havocValue(res, reach, st)
		}
		g.assumeIf(reach, "false")
		return
	}
	// merge returns
	nres := len(sub.rets[0].vals)
	vs := make([]string, nres)
	for i := 0; i < nres; i++ {
		term := sub.rets[len(sub.rets)-1].vals[i]
		for j := len(sub.rets) - 2; j >= 0; j-- {
			term = fmt.Sprintf("(ite %s %s %s)", sub.rets[j].reach, sub.rets[j].vals[i], term)
		}
		vs[i] = term
	}
	var sts []*State
	var conds []string
	for i := range sub.rets {
		sts = append(sts, sub.rets[i].st)
		conds = append(conds, sub.rets[i].reach)
	}
	ns := g.mergeStateList(sts, conds)
	*st = *ns
	// paths on which the callee panicked/never returned are cut: assume some return was reached
	if len(conds) > 0 {
		g.assumeIf(reach, "(or "+strings.Join(conds, " ")+" false)")
	}
	if nres > 0 && res != nil {
		a.bindResults(res, vs)
	}
}

func (a *Act) runWithFree(args, freeVars []string, st *State, reach string) {
	fn := a.fn
	if len(fn.FreeVars) > 0 {
		// bind free variables before running
		a.tuples = map[ssa.Value][]string{}
	}
	a.preEnv = map[ssa.Value]string{}
	for i, fv := range fn.FreeVars {
		if i < len(freeVars) {
			a.preEnv[fv] = freeVars[i]
		}
	}
	a.run(args, st, reach)
}

// ---- call by contract ----

func (a *Act) callByContract(res ssa.Value, instr ssa.Instruction, fn *ssa.Function, ct *Contract, args []string, st *State, reach string) {
	a.callByContractSeed(res, instr, fn, ct, args, st, reach, nil)
}

// callByContractSeed: seed = additional names visible in the contract (the parameters of the call that produced a function value)
func (a *Act) callByContractSeed(res ssa.Value, instr ssa.Instruction, fn *ssa.Function, ct *Contract, args []string, st *State, reach string, seed map[string]tv) {
	g := a.g
	// contract variants specialised on a function-valued argument:  key[funcName]
	if fn != nil {
		for _, x := range args {
			if f := g.eng.funcByTerm[x]; f != nil {
				if v := g.eng.contracts[ct.Key+"["+f.Name()+"]"]; v != nil {
					ct = v
				}
			}
		}
	}
	cs := &callSite{a: a, ct: ct, fn: fn, args: args, pre: st.clone()}
	if seed != nil {
		cs.lets = map[string]tv{}
		for k, v := range seed {
			cs.lets[k] = v
		}
		for _, l := range ct.Lets {
			e := cs.env(cs.pre, nil)
			cs.lets[l.Label] = e.value(e.eval(l.Expr))
		}
	}
	name := ct.Key
	// preconditions
	for i, cl := range ct.Requires {
		for j, c := range cs.evalClause(cl, cs.pre, nil) {
			if g.eng.wantSafety || g.eng.wantCallPre {
				g.oblige("call-pre", a.srcDetail(instr)+":"+name+":"+clauseLabel(cl, i, j), reach, c, a.pos(instr.Pos()), "precondition of "+name+": "+cl.Text)
			}
		}
	}
	// termination of (mutual) recursion
	if len(ct.Decreases) > 0 && a.top && a.ct != nil && len(a.ct.Decreases) > 0 && g.eng.sameSCC(a.fn, fn) {
		var oldm, newm []string
		for _, d := range a.ct.Decreases {
			oldm = append(oldm, a.evalTermAt(d, g.entry, nil))
		}
		for _, d := range ct.Decreases {
			newm = append(newm, cs.evalTerm(d, cs.pre))
		}
		g.oblige("call-decreases", a.srcDetail(instr)+":"+name, reach, lexDecrease(oldm, newm), a.pos(instr.Pos()), "recursive call decreases the measure")
	}
	// frame: the callee's modifies set must be allowed for the caller as well
	if g.checkFrame && !ct.ModifiesNothing() {
		for _, m := range cs.modRanges(cs.pre) {
			a.frameObligeR(instr, reach, m.ref, m.lo, m.hi, "callee "+name+" (modifies)")
		}
		if ct.ModifiesAll && !g.modAll {
			g.oblige("frame", a.srcDetail(instr), reach, "false", a.pos(instr.Pos()), "callee "+name+" may modify anything")
		}
	}
	// arguments passed for parameters the callee retains must not point into the caller's own input buffers
	if len(ct.Retains) > 0 && fn != nil {
		for i, p := range fn.Params {
			for _, r := range ct.Retains {
				if p.Name() == r && i < len(args) {
					a.noAliasOblige(instr, reach, p.Type(), args[i], "argument retained by "+name)
				}
			}
		}
	}
	// effect: havoc of the modifies set (and of everything allocated by the callee)
	modRefs := cs.modRefs(cs.pre)
	var named []string
	for _, m := range modRefs {
		named = append(named, g.def(a.nm("mod"), "Int", m))

	}
	post := &State{H: map[string]string{}}
	if ct.ModifiesAll {
		post = g.freshState(a.nm("after_" + sanitize(name)))
		g.assumeIf(reach, fmt.Sprintf("(>= %s %s)", post.Next, st.Next))
	} else {
		if ct.NoAlloc {
			post.Next = st.Next
		} else {
			post.Next = g.havoc(a.nm("after_"+sanitize(name)+"_next"), "Int")
			g.assumeIf(reach, fmt.Sprintf("(>= %s %s)", post.Next, st.Next))
		}
		mk := cs.modRefKinds(cs.pre)
		var allocK map[string]bool
		if !ct.NoAlloc && fn != nil && len(fn.Blocks) > 0 {
			allocK = g.eng.bodyWrites(fn)
			if allocK["ALL"] {
				allocK = nil
			}
		}
		for _, k := range heapKinds {
			al := !ct.NoAlloc
			if al && allocK != nil && !allocK[k] {
				al = false
			}
			post.H[k] = g.framedHeapK(a.nm("after_"+sanitize(name)), k, st.H[k], st.Next, named, mk, al)
		}
	}
	// decoders do not create references into their byte-slice arguments (each is verified in noalias mode): a cell of a
	// pre-existing object that points into such an argument after the call did so before
	if len(g.inputBufs) > 0 && fn != nil && !ct.ModifiesAll {
		for i, p := range fn.Params {
			sl, ok := p.Type().Underlying().(*types.Slice)
			if !ok || i >= len(args) {
				continue
			}
			if b, ok := sl.Elem().Underlying().(*types.Basic); !ok || b.Kind() != types.Uint8 {
				continue
			}
			retained := false
			for _, r := range ct.Retains {
				if r == p.Name() {
					retained = true
				}
			}
			if retained {
				continue
			}
			for _, k := range []string{"L", "ML"} {
				g.assumeIf(reach, fmt.Sprintf("(forall ((r Int) (o Int)) (! (=> (and (< r %s) (not (= (sref %s) 0)) (= (sref (select (select %s r) o)) (sref %s))) (= (sref (select (select %s r) o)) (sref %s))) :pattern ((select (select %s r) o))))", st.Next, args[i], post.H[k], args[i], st.H[k], args[i], post.H[k]))
			}
		}
	}
	*st = *post
	g.ghostCallEffects(ct, cs.pre, st, reach)
	if g.trackEsc && !ct.NoAlloc {
		if ct.ModifiesAll {
			g.assumeIf(reach, fmt.Sprintf("(>= %s %s)", g.escNow(st), g.escNow(cs.pre)))
		} else {
			g.escHavoc(st, reach)
		}
	}
	cs.post = st
	// results
	var rs []string
	if res != nil {
		if tup, ok := res.Type().(*types.Tuple); ok {
			for i := 0; i < tup.Len(); i++ {
				n := g.havoc(a.nm(fmt.Sprintf("%s_%d", res.Name(), i)), g.sortOf(tup.At(i).Type()))
				g.assumeIf(reach, rangeFact(tup.At(i).Type(), n))
				g.assumeIf(reach, g.heapValWF(tup.At(i).Type(), n, st))
				rs = append(rs, n)
			}
			a.setTuple(res, rs)
		} else {
			rs = append(rs, a.bindHavoc(res, reach, st))
		}
	} else if fn != nil {
		// results exist but are unused (deferred call): create placeholders
		sig := fn.Signature
		for i := 0; i < sig.Results().Len(); i++ {
			rs = append(rs, g.havoc(a.nm("unused_res"), g.sortOf(sig.Results().At(i).Type())))
		}
	}
	cs.res = rs
	if fn != nil {
		sig := fn.Signature
		for i := 0; i < sig.Results().Len() && i < len(rs); i++ {
			if _, isFn := sig.Results().At(i).Type().Underlying().(*types.Signature); !isFn {
				continue
			}
			for _, rn := range []string{sig.Results().At(i).Name(), fmt.Sprintf("result%d", i)} {
				if frc := g.eng.contracts["fnresult "+ct.Key+"."+rn]; frc != nil && rn != "" {
					info := &fnResultInfo{ct: frc, orig: map[string]tv{}}
					for j, p := range fn.Params {
						if j < len(args) {
							info.orig[p.Name()] = tv{term: args[j], typ: p.Type()}
						}
					}
					if g.fnResults == nil {
						g.fnResults = map[string]*fnResultInfo{}
					}
					g.fnResults[rs[i]] = info
				}
			}
		}
	}
	if ct.NoAllocWhen != nil && !ct.ModifiesAll {
		// conditional noalloc: on those returns the caller's heap is the one before the call (apart from the modifies set)
		for _, c := range cs.evalClause(ct.NoAllocWhen, st, cs.pre) {
			var eqs []string
			eqs = append(eqs, fmt.Sprintf("(= %s %s)", st.Next, cs.pre.Next))
			if g.trackEsc {
				eqs = append(eqs, fmt.Sprintf("(= %s %s)", g.escNow(st), g.escNow(cs.pre)))
			}
			if ct.ModifiesNothing() {
				for _, k := range heapKinds {
					if st.H[k] != cs.pre.H[k] {
						eqs = append(eqs, fmt.Sprintf("(= %s %s)", st.H[k], cs.pre.H[k]))
					}
				}
			}
			g.assumeIf(reach, fmt.Sprintf("(=> %s (and %s))", c, strings.Join(eqs, " ")))
		}
	}
	for _, cl := range ct.Ensures {
		if strings.HasPrefix(cl.Label, "local-") {
			// proved at the function's returns, not handed to callers (quantifier shapes that would loop with the
			// caller's other facts; callers get the consequences stated in the other clauses)
			continue
		}
		func() {
			defer func() {
				if r := recover(); r != nil {
					if _, ok := r.(ownProofOnly); !ok {
						panic(r)
					}
				}
			}()
			for _, c := range cs.evalClause(cl, st, cs.pre) {
				g.assumeIf(reach, c)
			}
		}()
	}
}

// ---- interface method calls ----

func (a *Act) invoke(res ssa.Value, instr ssa.Instruction, c *ssa.CallCommon, recv string, args []string, st *State, reach string) {
	g := a.g
	eng := g.eng
	it := c.Value.Type()
	key := fmt.Sprintf("%s.%s", shortName(it.String()), c.Method.Name())
	if h, ok := externs[key]; ok && h(a, res, instr, append([]string{recv}, args...), st, reach) {
		return
	}
	if ct := eng.contracts[key]; ct != nil {
		a.callByContract(res, instr, nil, ct, append([]string{recv}, args...), st, reach)
		return
	}
	// the dynamic types the receiver can have are known statically (phi of freshly boxed values): dispatch over exactly those
	if sts := staticIfaceTypes(c.Value, map[ssa.Value]bool{}); len(sts) > 0 && len(sts) <= 64 && a.depth < g.maxDepth {
		var impls []impl
		ok := true
		for _, t := range sts {
			sel := eng.prog.MethodSets.MethodSet(t).Lookup(c.Method.Pkg(), c.Method.Name())
			if sel == nil {
				ok = false
				break
			}
			fn := eng.prog.MethodValue(sel)
			if fn == nil {
				ok = false
				break
			}
			impls = append(impls, impl{t, fn})
		}
		if ok {
			a.dispatch(res, instr, c, impls, recv, args, st, reach)
			return
		}
	}
	if (c.Method.Name() == "FromBytes" || c.Method.Name() == "Unmarshal") && strings.HasPrefix(shortName(it.String()), "dhcpv") {
		// decoding methods called through an interface: default contract "modifies the object the receiver points to"
		g.note("interface call %s uses the default decoder contract (modifies its receiver object only)", key)
		recvRef := fmt.Sprintf("(pref (ubPtr (ibox %s)))", recv)
		g.assumeIf(reach, fmt.Sprintf("(is-bPtr (ibox %s))", recv))
		a.frameOblige(instr, reach, recvRef, "decoder "+key)
		named := g.def(a.nm("mod"), "Int", recvRef)
		post := &State{H: map[string]string{}}
		post.Next = g.havoc(a.nm("after_decode_next"), "Int")
		g.assumeIf(reach, fmt.Sprintf("(>= %s %s)", post.Next, st.Next))
		for _, k := range heapKinds {
			post.H[k] = g.framedHeapK(a.nm("after_decode"), k, st.H[k], st.Next, []string{named}, nil, true)
		}
		*st = *post
		g.escHavoc(st, reach)
		if res != nil {
			a.havocValue(res, reach, st)
		}
		return
	}
	// every implementation is a trivial getter (returns a constant or a field): closed-world case analysis on the dynamic
	// type, whatever the number of implementations (A4)
	if res != nil && len(args) == 0 {
		if t, tags, ok := eng.ifaceGetter(g, a, it, c.Method, recv, st); ok {
			g.assumeIf(reach, "(or "+strings.Join(tags, " ")+")")
			a.bind(res, t)
			return
		}
	}
	// interface methods of other packages that are declared pure: no dispatch into their implementations
	if eng.isPureExtern(key) && !strings.HasPrefix(key, "dhcpv") {
		a.havocCall(res, instr, st, reach, "invoke "+key, true)
		if res != nil && strings.HasPrefix(key, "context.") && isErrorType(res.Type()) {
			// an error produced by the context package is nil or one of its own values: never one of the library's
			// (unexported) package-level error variables
			r := a.env[res]
			g.assumeIf(reach, fmt.Sprintf("(or (= %s nilIface) (and (is-bOpaque (ibox %s)) (> (ubOpaque (ibox %s)) 1000000)))", r, r, r))
			if key == "context.Context.Err" {
				// the library calls ctx.Err() only in the select case in which ctx.Done() has delivered (both clients'
				// SendAndRead): the context is done, so the error is non-nil (contract of package context; trusted)
				g.note("context.Context.Err assumed non-nil (called after <-ctx.Done())")
				g.assumeIf(reach, fmt.Sprintf("(not (= %s nilIface))", r))
			}
		}
		return
	}
	// closed world dispatch when the implementations are few and known
	if impls := eng.implementations(it, c.Method); len(impls) > 0 && len(impls) <= eng.dispatchLimit && a.depth < g.maxDepth {
		a.dispatch(res, instr, c, impls, recv, args, st, reach)
		return
	}
	a.havocCall(res, instr, st, reach, "invoke "+key, eng.isPureExtern(key))
}

// staticIfaceTypes: the concrete types of an interface value built only from MakeInterface instructions (through phis)
func staticIfaceTypes(v ssa.Value, seen map[ssa.Value]bool) []types.Type {
	if seen[v] {
		return nil
	}
	seen[v] = true
	switch x := v.(type) {
	case *ssa.MakeInterface:
		return []types.Type{x.X.Type()}
	case *ssa.ChangeInterface:
		return staticIfaceTypes(x.X, seen)
	case *ssa.Phi:
		var out []types.Type
		have := map[string]bool{}
		for _, e := range x.Edges {
			if c, ok := e.(*ssa.Const); ok && c.Value == nil {
				continue // nil edge: the nil-invoke obligation covers it
			}
			ts := staticIfaceTypes(e, seen)
			if ts == nil {
				return nil
			}
			for _, t := range ts {
				if !have[t.String()] {
					have[t.String()] = true
					out = append(out, t)
				}
			}
		}
		return out
	}
	return nil
}

type impl struct {
	typ types.Type
	fn  *ssa.Function
}

func (a *Act) dispatch(res ssa.Value, instr ssa.Instruction, c *ssa.CallCommon, impls []impl, recv string, args []string, st *State, reach string) {
	g := a.g
	type outcome struct {
		cond string
		vals []string
		st   *State
	}
	var outs []outcome
	var covered []string
	for _, im := range impls {
		cond := g.def(a.nm("disp"), "Bool", fmt.Sprintf("(and %s (= (itag %s) %d))", reach, recv, g.tag(im.typ)))
		covered = append(covered, fmt.Sprintf("(= (itag %s) %d)", recv, g.tag(im.typ)))
		sub := st.clone()
		// the dynamic type determines the representation of the boxed value
		g.assumeIf(cond, a.boxShape(im.typ, recv))
		rv := a.unboxIface(im.typ, recv, sub)
		// use a scratch value holder for results
		holder := &resultHolder{}
		a.staticCallHolder(holder, res, instr, im.fn, append([]string{rv}, args...), sub, cond)
		outs = append(outs, outcome{cond, holder.vals, sub})
	}
	// closed world (A4): the dynamic type is one of the known implementations
	g.assumeIf(reach, "(or "+strings.Join(covered, " ")+")")
	var sts []*State
	var conds []string
	for _, o := range outs {
		sts = append(sts, o.st)
		conds = append(conds, o.cond)
	}
	*st = *g.mergeStateList(sts, conds)
	if res != nil {
		n := 1
		if tup, ok := res.Type().(*types.Tuple); ok {
			n = tup.Len()
		}
		vs := make([]string, n)
		for i := 0; i < n; i++ {
			term := outs[len(outs)-1].vals[i]
			for j := len(outs) - 2; j >= 0; j-- {
				term = fmt.Sprintf("(ite %s %s %s)", outs[j].cond, outs[j].vals[i], term)
			}
			vs[i] = term
		}
		a.bindResults(res, vs)
	}
}

type resultHolder struct{ vals []string }

// staticCallHolder runs a static call whose results are captured in holder instead of being bound to res.
func (a *Act) staticCallHolder(h *resultHolder, res ssa.Value, instr ssa.Instruction, fn *ssa.Function, args []string, st *State, reach string) {
	if res == nil {
		a.staticCall(nil, instr, fn, args, st, reach)
		return
	}
	// temporarily bind into res, then read back and unbind
	oldEnv, hadEnv := a.env[res]
	oldTup := a.tuples[res]
	a.staticCall(res, instr, fn, args, st, reach)
	if _, ok := res.Type().(*types.Tuple); ok {
		h.vals = a.tuples[res]
	} else {
		h.vals = []string{a.env[res]}
	}
	if hadEnv {
		a.env[res] = oldEnv
	} else {
		delete(a.env, res)
	}
	if oldTup != nil {
		a.tuples[res] = oldTup
	} else {
		delete(a.tuples, res)
	}
}

// ---- defer / go ----

func (a *Act) runDefers(in *ssa.RunDefers, st *State, reach string) {
	g := a.g
	for i := len(a.defers) - 1; i >= 0; i-- {
		d := a.defers[i]
		// executed only if registered on this path
		cond := reach
		if d.reach != "true" && d.reach != reach {
			cond = g.def(a.nm("defer_cond"), "Bool", fmt.Sprintf("(and %s %s)", reach, d.reach))
		}
		sub := st.clone()
		c := &d.call.Call
		args := d.args
		recv := ""
		if c.IsInvoke() || !isConstLike(c.Value) {
			recv = args[0]
			args = args[1:]
		}
		if mc, ok := c.Value.(*ssa.MakeClosure); ok {
			_ = mc
		}
		a.doCall(nil, d.call, c, recv, args, sub, cond)
		if cond == reach {
			*st = *sub
		} else {
			*st = *g.mergeStateList([]*State{sub, st.clone()}, []string{cond, "true"})
		}
	}
}

func (a *Act) goStmt(in *ssa.Go, st *State, reach string) {
	// A goroutine start is a ghost event for the spawning function: no effect on its own state.
	// Everything reachable from the arguments may be modified concurrently; that is outside the sequential claim (assumption A5).
	a.g.note("go statement in %s treated as ghost event", shortFn(a.fn))
	// ghost counter of goroutines started by the function under verification (contracts read it with spawned())
	g := a.g
	cur := sel(st.H["I"], ghostSpawnRef, "0")
	st.H["I"] = g.def("HI", heapSort["I"], sto(st.H["I"], ghostSpawnRef, "0", fmt.Sprintf("(+ %s 1)", cur)))
	if a.g.eng.goHook != nil {
		a.g.eng.goHook(a, in, st, reach)
	}
	if (a.top || a.letsAtEntry) && a.ct != nil && len(a.ct.Cuts) > 0 {
		// cuts anchored on "a goroutine is started" rather than on the text of the go statement:  after `go:` ...
		// (they fire at the first go statement executed; a contract with such cuts is about functions that have one)
		a.fireNamedCuts([]string{"go:"}, in, st, reach)
	}
}

// ---- builtins ----

func (a *Act) builtin(res ssa.Value, instr ssa.Instruction, c *ssa.CallCommon, fn *ssa.Builtin, args []string, st *State, reach string) {
	g := a.g
	switch fn.Name() {
	case "len":
		switch ut := c.Args[0].Type().Underlying().(type) {
		case *types.Slice:
			a.bind(res, fmt.Sprintf("(sllen %s)", args[0]))
		case *types.Basic:
			a.bind(res, fmt.Sprintf("(slen %s)", args[0]))
		case *types.Map:
			n := a.bindHavoc(res, reach, st)
			g.assumeIf(reach, fmt.Sprintf("(>= %s 0)", n))
			g.assumeIf(reach, fmt.Sprintf("(= %s (maplen (select %s %s)))", n, st.H["MD"], args[0]))
			_ = ut
		default:
			n := a.bindHavoc(res, reach, st)
			g.assumeIf(reach, fmt.Sprintf("(>= %s 0)", n))
		}
	case "cap":
		switch c.Args[0].Type().Underlying().(type) {
		case *types.Slice:
			a.bind(res, fmt.Sprintf("(scap %s)", args[0]))
		default:
			n := a.bindHavoc(res, reach, st)
			g.assumeIf(reach, fmt.Sprintf("(>= %s 0)", n))
		}
	case "copy":
		dst, src := args[0], args[1]
		var n, srcOff string
		el := c.Args[0].Type().Underlying().(*types.Slice).Elem()
		stride := slots(el)
		kinds := map[string]bool{}
		typeKinds(el, kinds)
		for k := range kinds {
			if k == "" {
				a.havocCall(res, instr, st, reach, "copy of unsupported elems", false)
				return
			}
		}
		isStr := isString(c.Args[1].Type())
		if isStr {
			n = g.def(a.nm("copy_n"), "Int", fmt.Sprintf("(ite (<= (sllen %s) (slen %s)) (sllen %s) (slen %s))", dst, src, dst, src))
			srcOff = "0"
		} else {
			n = g.def(a.nm("copy_n"), "Int", fmt.Sprintf("(ite (<= (sllen %s) (sllen %s)) (sllen %s) (sllen %s))", dst, src, dst, src))
			srcOff = fmt.Sprintf("(soff %s)", src)
		}
		if g.checkFrame {
			cond := fmt.Sprintf("(or (<= %s 0) (>= (sref %s) %s))", n, dst, g.entry.Next)
			if g.modset != nil {
				ns := slots(c.Args[0].Type().Underlying().(*types.Slice).Elem())
				cond = fmt.Sprintf("(or (<= %s 0) (>= (sref %s) %s) %s)", n, dst, g.entry.Next, g.modsetR(fmt.Sprintf("(sref %s)", dst), fmt.Sprintf("(soff %s)", dst), fmt.Sprintf("(+ (soff %s) %s)", dst, mulConst(ns, n))))
			}
			g.oblige("frame", a.srcDetail(instr), reach, cond, a.pos(instr.Pos()), "copy writes only memory allocated during the call or listed in modifies")
		}
		pre := st.clone()
		for _, k := range heapKinds {
			if !kinds[k] {
				continue
			}
			srcArr := fmt.Sprintf("(select %s (sref %s))", pre.H[k], src)
			if isStr {
				srcArr = fmt.Sprintf("(arrofseq %s)", src)
			}
			st.H[k] = g.def("H"+k, heapSort[k], fmt.Sprintf("(ite (> %s 0) (store %s (sref %s) (%s (select %s (sref %s)) (soff %s) %s %s %s)) %s)", n, pre.H[k], dst, arrcopyFn[k], pre.H[k], dst, dst, srcArr, srcOff, mulConst(stride, n), pre.H[k]))
		}
		if res != nil {
			a.bind(res, n)
		}
	case "append":
		a.appendOp(res, instr, c, args, st, reach)
	case "delete":
		m := args[0]
		mt := c.Args[0].Type().Underlying().(*types.Map)
		key := a.mapKey(mt.Key(), args[1])
		a.frameOblige(instr, reach, m, "map delete")
		// delete on a nil map is a no-op
		st.H["MD"] = g.def("HMD", heapSort["MD"], fmt.Sprintf("(ite (= %s 0) %s %s)", m, st.H["MD"], sto(st.H["MD"], m, key, "false")))
	case "close":
		a.closeOp(instr, args[0], st, reach)
	case "panic":
		if g.eng.wantSafety {
			g.oblige("explicit-panic", a.srcDetail(instr), reach, "false", a.pos(instr.Pos()), "panic() unreachable")
		}
	case "ssa:wrapnilchk":
		// wrapper methods: panics if the receiver pointer is nil, otherwise returns it
		a.safety("nil-deref", instr, reach, fmt.Sprintf("(not (= (pref %s) 0))", args[0]), "value method called through a nil pointer")
		if res != nil {
			a.bind(res, args[0])
		}
	case "print", "println":
	case "recover":
		if res != nil {
			a.bind(res, "nilIface")
		}
	case "min", "max":
		op := "<="
		if fn.Name() == "max" {
			op = ">="
		}
		t := args[0]
		for _, x := range args[1:] {
			t = fmt.Sprintf("(ite (%s %s %s) %s %s)", op, t, x, t, x)
		}
		a.bind(res, t)
	default:
		a.havocCall(res, instr, st, reach, "builtin "+fn.Name(), false)
	}
}

func (a *Act) appendOp(res ssa.Value, instr ssa.Instruction, c *ssa.CallCommon, args []string, st *State, reach string) {
	g := a.g
	s, t := args[0], args[1]
	el := c.Args[0].Type().Underlying().(*types.Slice).Elem()
	stride := slots(el)
	kinds := map[string]bool{}
	typeKinds(el, kinds)
	for k := range kinds {
		if k == "" {
			a.havocCall(res, instr, st, reach, "append of unsupported elems "+el.String(), false)
			return
		}
	}
	isStr := isString(c.Args[1].Type())
	var tlen string
	if isStr {
		tlen = fmt.Sprintf("(slen %s)", t)
	} else {
		tlen = fmt.Sprintf("(sllen %s)", t)
	}
	base := "append"
	if res != nil {
		base = res.Name()
	}
	total := g.def(a.nm(base+"_total"), "Int", fmt.Sprintf("(+ (sllen %s) %s)", s, tlen))
	inplace := g.def(a.nm(base+"_inplace"), "Bool", fmt.Sprintf("(and (<= %s (scap %s)) (not (= (sref %s) 0)))", total, s, s))
	if g.checkFrame {
		cond := fmt.Sprintf("(or (not %s) (<= %s 0) (>= (sref %s) %s))", inplace, tlen, s, g.entry.Next)
		if g.modset != nil {
			ns := slots(el)
			cond = fmt.Sprintf("(or (not %s) (<= %s 0) (>= (sref %s) %s) %s)", inplace, tlen, s, g.entry.Next, g.modsetR(fmt.Sprintf("(sref %s)", s), fmt.Sprintf("(+ (soff %s) %s)", s, mulConst(ns, fmt.Sprintf("(sllen %s)", s))), fmt.Sprintf("(+ (soff %s) %s)", s, mulConst(ns, total))))
		}
		g.oblige("frame", a.srcDetail(instr), reach, cond, a.pos(instr.Pos()), "in-place append writes only memory allocated during the call or listed in modifies")
	}
	pre := st.clone()
	ref := a.alloc(st, a.nm(base), arrAlloc(el))
	newcap := g.havoc(a.nm(base+"_cap"), "Int")
	g.assumeIf(reach, fmt.Sprintf("(>= %s %s)", newcap, total))
	keep := fmt.Sprintf("(and (= %s 0) (<= %s (scap %s)))", tlen, total, s)
	for _, k := range heapKinds {
		if !kinds[k] {
			continue
		}
		cp := arrcopyFn[k]
		var tArr, tOff string
		if isStr {
			tArr, tOff = fmt.Sprintf("(arrofseq %s)", t), "0"
		} else {
			tArr, tOff = fmt.Sprintf("(select %s (sref %s))", pre.H[k], t), mulConst(stride, fmt.Sprintf("(soff %s)", t))
			if stride == 1 {
				tOff = fmt.Sprintf("(soff %s)", t)
			}
		}
		// slot arithmetic: offsets of a slice are already in slots; lengths are in elements
		sOff := fmt.Sprintf("(soff %s)", s)
		sLenSlots := mulConst(stride, fmt.Sprintf("(sllen %s)", s))
		tLenSlots := mulConst(stride, tlen)
		if !isStr {
			tOff = fmt.Sprintf("(soff %s)", t)
		}
		inpl := fmt.Sprintf("(store %s (sref %s) (%s (select %s (sref %s)) (+ %s %s) %s %s %s))", st.H[k], s, cp, pre.H[k], s, sOff, sLenSlots, tArr, tOff, tLenSlots)
		real := fmt.Sprintf("(store %s %s (%s (%s %s 0 (select %s (sref %s)) %s %s) %s %s %s %s))", st.H[k], ref, cp, cp, heapZero[k], pre.H[k], s, sOff, sLenSlots, sLenSlots, tArr, tOff, tLenSlots)
		st.H[k] = g.def("H"+k, heapSort[k], fmt.Sprintf("(ite %s %s (ite %s %s %s))", inplace, inpl, keep, st.H[k], real))
	}
	if res != nil {
		a.bind(res, fmt.Sprintf("(ite %s (mkSlice (sref %s) (soff %s) %s (scap %s)) (ite %s %s (mkSlice %s 0 %s %s)))", inplace, s, s, total, s, keep, s, ref, total, newcap))
		// append(s, x1..xn) with n known: state where the new elements are (a consequence of the copy axioms; it puts the
		// terms result[len(s)+j] into the solver's term set so that quantified invariants over the elements fire on them)
		if sl, ok := c.Args[1].(*ssa.Slice); ok && stride == 1 && !isStr {
			if al, ok := sl.X.(*ssa.Alloc); ok {
				if at, ok := al.Type().Underlying().(*types.Pointer).Elem().Underlying().(*types.Array); ok && at.Len() <= 4 && sl.Low == nil && sl.High == nil {
					r := a.env[res]
					for k := range kinds {
						if !kinds[k] || elemKind(k) != k {
							continue
						}
						for j := int64(0); j < at.Len(); j++ {
							g.assumeIf(reach, fmt.Sprintf("(= (select (select %s (sref %s)) (+ (soff %s) (sllen %s) %d)) (select (select %s (sref %s)) (+ (soff %s) %d)))", st.H[k], r, r, s, j, pre.H[k], t, t, j))
						}
					}
				}
			}
		}
	}
}

// ---- range / next ----

func (a *Act) nextOp(in *ssa.Next, st *State, reach string) {
	g := a.g
	rng := in.Iter.(*ssa.Range)
	tup := in.Type().(*types.Tuple)
	ok := g.havoc(a.nm(in.Name()+"_ok"), "Bool")
	if in.IsString {
		s := a.val(rng.X)
		idx := g.havoc(a.nm(in.Name()+"_k"), "Int")
		r := g.havoc(a.nm(in.Name()+"_v"), "Int")
		g.assumeIf(reach, fmt.Sprintf("(=> %s (and (<= 0 %s) (< %s (slen %s)) (<= 0 %s) (<= %s 1114111)))", ok, idx, idx, s, r, r))
		a.setTuple(in, []string{ok, idx, r})
		return
	}
	mt := rng.X.Type().Underlying().(*types.Map)
	m := a.val(rng.X)
	kt, vt := tup.At(1).Type(), tup.At(2).Type()
	key := g.havoc(a.nm(in.Name()+"_k"), g.sortOf(mt.Key()))
	g.assumeIf(reach, rangeFact(mt.Key(), key))
	var v string
	if slots(mt.Elem()) == 1 && kindOf(mt.Elem()) != "" {
		v = g.def(a.nm(in.Name()+"_v"), g.sortOf(mt.Elem()), sel(st.H["M"+kindOf(mt.Elem())], m, a.mapKey(mt.Key(), key)))
		g.assumeIf(reach, g.heapValWF(mt.Elem(), v, st))
		g.assumeIf(reach, rangeFact(mt.Elem(), v))
	} else {
		v = g.havoc(a.nm(in.Name()+"_v"), g.sortOf(mt.Elem()))
	}
	// an enumerated key is in the domain; nothing is known about the order (DESIGN 4.5)
	g.assumeIf(reach, fmt.Sprintf("(=> %s (and (not (= %s 0)) %s))", ok, m, sel(st.H["MD"], m, a.mapKey(mt.Key(), key))))
	// ... it has not been enumerated before, and the enumeration ends only when every key has been (Go: each entry is
	// produced once as long as the map is not modified during the loop; the set of visited keys is the ghost iterator's row)
	if it, bound := a.env[rng]; bound && it != "RANGE" && !a.mapWrittenInLoop(in) {
		k := a.mapKey(mt.Key(), key)
		g.assumeIf(reach, fmt.Sprintf("(=> %s (not %s))", ok, sel(st.H["MD"], it, k)))
		kv := g.sortOf(mt.Key())
		ks := "Int"
		_ = kv
		g.assumeIf(reach, fmt.Sprintf("(=> (not %s) (forall ((k %s)) (! (=> (select (select %s %s) k) (select (select %s %s) k)) :pattern ((select (select %s %s) k)) :pattern ((select (select %s %s) k)))))", ok, ks, st.H["MD"], m, st.H["MD"], it, st.H["MD"], m, st.H["MD"], it))
		st.H["MD"] = g.def("HMD", heapSort["MD"], fmt.Sprintf("(ite %s %s %s)", ok, sto(st.H["MD"], it, k, "true"), st.H["MD"]))
	}
	_ = kt
	_ = vt
	a.setTuple(in, []string{ok, key, v})
}

// ---- channels (ghost model is attached by the concurrency layer; the default is a sound havoc) ----

func (a *Act) sendOp(in *ssa.Send, st *State, reach string) {
	if a.g.eng.chanHook != nil && a.g.eng.chanHook.send(a, in, st, reach) {
		return
	}
	if a.g.topCt != nil && a.g.topCt.mentions(chanWordRe) {
		a.g.recordChanSend(a, st, a.val(in.Chan), in.X)
		return
	}
	a.g.note("channel send in %s: no channel invariant", shortFn(a.fn))
}

func (a *Act) recvOp(in *ssa.UnOp, st *State, reach string) {
	if a.g.eng.chanHook != nil && a.g.eng.chanHook.recv(a, in, st, reach) {
		return
	}
	a.havocValue(in, reach, st)
}

func (a *Act) closeOp(instr ssa.Instruction, ch string, st *State, reach string) {
	if a.g.eng.chanHook != nil && a.g.eng.chanHook.close(a, instr, ch, st, reach) {
		return
	}
	a.safety("close-nil", instr, reach, fmt.Sprintf("(not (= %s 0))", ch), "close of nil channel")
}

func (a *Act) selectOp(in *ssa.Select, st *State, reach string) {
	if a.g.eng.chanHook != nil && a.g.eng.chanHook.sel(a, in, st, reach) {
		return
	}
	if a.g.topCt != nil && (a.g.topCt.mentions(clockWordRe) || a.g.topCt.mentions(chanWordRe)) {
		a.selectModel(in, st, reach)
		return
	}
	g := a.g
	tup := in.Type().(*types.Tuple)
	var vs []string
	idx := g.havoc(a.nm(in.Name()+"_idx"), "Int")
	lo := 0
	if !in.Blocking {
		lo = -1
	}
	g.assumeIf(reach, fmt.Sprintf("(and (<= %d %s) (< %s %d))", lo, idx, idx, len(in.States)))
	vs = append(vs, idx, g.havoc(a.nm(in.Name()+"_recvok"), "Bool"))
	for i := 2; i < tup.Len(); i++ {
		n := g.havoc(a.nm(fmt.Sprintf("%s_r%d", in.Name(), i)), g.sortOf(tup.At(i).Type()))
		g.assumeIf(reach, rangeFact(tup.At(i).Type(), n))
		g.assumeIf(reach, g.heapValWF(tup.At(i).Type(), n, st))
		vs = append(vs, n)
	}
	a.setTuple(in, vs)
}

// mapWrittenInLoop: the function under execution updates or deletes from some map between two Next operations of this
// iterator (conservative: anywhere in the function). Then "each key once" is not assumed.
func (a *Act) mapWrittenInLoop(nx *ssa.Next) bool {
	for _, b := range a.fn.Blocks {
		for _, in := range b.Instrs {
			switch x := in.(type) {
			case *ssa.MapUpdate:
				return true
			case *ssa.Call:
				if bi, ok := x.Call.Value.(*ssa.Builtin); ok && bi.Name() == "delete" {
					return true
				}
			}
		}
	}
	return false
}

// ghostSpawnRef: the (negative, never allocated) reference whose slot 0 in the integer heap counts the go statements
// executed so far
const ghostSpawnRef = "(- 999983)"

func fnHasGo(fn *ssa.Function) bool {
	for _, b := range fn.Blocks {
		for _, in := range b.Instrs {
			if _, ok := in.(*ssa.Go); ok {
				return true
			}
		}
	}
	return false
}
