package main

import (
	"strconv"
	"fmt"
	"go/constant"
	"go/parser"
	"go/token"
	"go/types"
	"math/big"
	"sort"
	"strings"

	"golang.org/x/tools/go/ssa"
)

// ---------- global generator (one per top-level function under verification) ----------

type Assume struct {
	seq  int
	term string
}

// Obl is one proof obligation: under the assumptions with seq < o.seq, reach => cond.
type Obl struct {
	name   string
	kind   string
	seq    int
	reach  string
	cond   string
	pos    token.Position
	text   string // human-readable goal (contract syntax or instruction)
	fn     string // top-level function
	probe  bool   // must-fail reachability probe
	splits []string
	splitTerms []string
	outLen int
	entrySeq, cutSeq int // hard cut: only assumptions with seq < entrySeq or >= cutSeq are used (cutSeq == 0: all)
}

type Gen struct {
	eng      *Engine
	prog     *ssa.Program
	top      *ssa.Function
	out      []string // declarations/definitions, in order
	pre      []string // string literals and datatypes: emitted before the spec axioms
	assumes  []Assume
	obls     []Obl
	seq      int
	cnt      int
	structs  map[string]string // type string -> sort name
	strConst map[string]string
	nameCnt  map[string]int
	notes    map[string]bool
	closures map[string]*closureInfo
	specUsed map[string]bool // spec functions whose axioms are needed
	specDecl []string
	maxDepth int
	entry    *State
	modset   func(r string) string // "ref r may be modified by the top function" ; nil = nothing
	modRefs  []string
	entrySeq, cutSeq int
	paramTerms map[string]string // parameter name -> SMT constant (replay of counterexamples)
	modRanges []modRange
	modKindsOnly []modTarget // per modifies target: the heap kinds its type has (loop heads and hard cuts havoc only those)
	recvSliceInv func(st *State) []string
	inputBufs  []string // []byte parameters that must not be retained (noalias mode)
	inputNames []string
	modAll   bool
	checkFrame bool
	unsupported int
	variant  string // specialization suffix of the function under verification
	allocs   map[string]allocType
	preds    map[string]*typePredT
	topCt    *Contract // contract of the function under verification
	dynCount, dynQueries, dynUnknown, dynUnresolved int
	trackLocks bool   // the function under verification takes or releases mutexes: lock balance is an obligation
	dynLast    string // the closure the previous call through a function value was resolved to
	dynGaveUp  bool
	fnValues map[string]*ssa.Function // function values taken in this proof context (term -> function)
	constCell map[string]string // pointer term of a single-assignment local cell -> the value it holds
	fnResults map[string]*fnResultInfo // function values returned by contracted calls that have an "fnresult" contract
	trackEsc bool // the function under verification claims noalloc: escaping allocations are counted in a ghost cell
}

type fnResultInfo struct {
	ct   *Contract
	orig map[string]tv // the parameters of the call that returned the function value
}

// ghostEscRef: the (negative, never allocated) reference whose slot 0 in the integer heap counts the allocations that can
// outlive the function under verification (everything but its own non-escaping local variables); maintained only while a
// function with a noalloc claim is verified
const ghostEscRef = "(- 999979)"

func (g *Gen) escNow(st *State) string { return sel(st.H["G"], ghostEscRef, "0") }

// escHavoc: something that may allocate happened (a call, a loop): the counter may have grown
func (g *Gen) escHavoc(st *State, reach string) {
	if !g.trackEsc {
		return
	}
	old := g.escNow(st)
	n := g.havoc("esc", "Int")
	g.assumeIf(reach, fmt.Sprintf("(>= %s %s)", n, old))
	st.H["G"] = g.def("HG", heapSort["G"], sto(st.H["G"], ghostEscRef, "0", n))
}

func (g *Gen) escBump(st *State) {
	if !g.trackEsc {
		return
	}
	st.H["G"] = g.def("HG", heapSort["G"], sto(st.H["G"], ghostEscRef, "0", fmt.Sprintf("(+ %s 1)", g.escNow(st))))
}

// inPlace: the function under verification executes callee bodies / its own loops in place (inlines, unroll): calls through
// function values are then resolved against the closures and function values of this proof context
func (g *Gen) inPlace() bool {
	return g.topCt != nil && (g.topCt.Inlines != nil || g.topCt.UnrollAll > 0)
}

type closureInfo struct {
	fn       *ssa.Function
	bindings []string
	id       int
}

func NewGen(eng *Engine, top *ssa.Function) *Gen {
	return &Gen{eng: eng, prog: eng.prog, top: top, structs: map[string]string{}, strConst: map[string]string{}, nameCnt: map[string]int{},
		notes: map[string]bool{}, closures: map[string]*closureInfo{}, specUsed: map[string]bool{}, maxDepth: 6, allocs: map[string]allocType{}, preds: map[string]*typePredT{}}
}

func (g *Gen) note(format string, args ...interface{}) { g.notes[fmt.Sprintf(format, args...)] = true }

func sanitize(base string) string {
	return strings.Map(func(r rune) rune {
		if r >= 'a' && r <= 'z' || r >= 'A' && r <= 'Z' || r >= '0' && r <= '9' || r == '_' {
			return r
		}
		return '_'
	}, base)
}

func (g *Gen) fresh(base string) string {
	g.cnt++
	return fmt.Sprintf("%s_%d", sanitize(base), g.cnt)
}

func (g *Gen) declare(name, sort string) {
	g.out = append(g.out, fmt.Sprintf("(declare-fun %s () %s)", name, sort))
}
func (g *Gen) def(base, sort, term string) string {
	// every definition is an opaque constant with a defining equation, so that it may appear in patterns
	n := g.fresh(base)
	if strings.HasPrefix(sort, "(Array") && !strings.Contains(term, "(ite ") {
		// heaps built by store/hmerge are macros: no array equality is introduced (array extensionality is expensive);
		// merged heaps (ite) stay opaque constants so that they may appear inside triggers
		g.out = append(g.out, fmt.Sprintf("(define-fun %s () %s %s)", n, sort, term))
		return n
	}
	g.declare(n, sort)
	g.out = append(g.out, fmt.Sprintf("(assert (= %s %s))", n, term))
	return n
}
func (g *Gen) havoc(base, sort string) string {
	n := g.fresh(base)
	g.declare(n, sort)
	return n
}
func (g *Gen) assume(term string) {
	if term == "" || term == "true" {
		return
	}
	g.seq++
	g.assumes = append(g.assumes, Assume{g.seq, term})
}
func (g *Gen) assumeIf(reach, term string) {
	if term == "" || term == "true" {
		return
	}
	if reach == "true" {
		g.assume(term)
		return
	}
	g.assume(fmt.Sprintf("(=> %s %s)", reach, term))
}

// oblige registers an obligation. name is made unique by an occurrence ordinal.
func (g *Gen) oblige(kind, detail, reach, cond string, pos token.Position, text string) *Obl {
	if cond == "true" {
		return nil
	}
	g.seq++
	base := fmt.Sprintf("%s%s:%s:%s", shortFn(g.top), g.variant, kind, detail)
	k := g.nameCnt[base]
	g.nameCnt[base] = k + 1
	name := fmt.Sprintf("%s#%d", base, k)
	g.obls = append(g.obls, Obl{name: name, kind: kind, seq: g.seq, reach: reach, cond: cond, pos: pos, text: text, fn: shortFn(g.top), outLen: len(g.out), entrySeq: g.entrySeq, cutSeq: g.cutSeq})
	return &g.obls[len(g.obls)-1]
}

var tagTable = map[string]int{}
var tagTypes = map[int]types.Type{}

func (g *Gen) tag(t types.Type) int {
	k := t.String()
	if v, ok := tagTable[k]; ok {
		return v
	}
	v := len(tagTable) + 1
	tagTable[k] = v
	tagTypes[v] = t
	return v
}

// ---------- sorts ----------

// "G" is the ghost integer heap (virtual clock, timers, transmission counter, allocation counter): no program type has this kind,
// so no program store can touch it
var heapKinds = []string{"I", "B", "Q", "L", "P", "F", "R", "MD", "MI", "MB", "MQ", "ML", "MP", "MF", "MR", "G"}
var heapSort = map[string]string{"R": "(Array Int (Array Int Int))", "I": "(Array Int (Array Int Int))", "B": "(Array Int (Array Int Bool))", "Q": "(Array Int (Array Int BSeq))", "L": "(Array Int (Array Int Slice))", "P": "(Array Int (Array Int Ptr))", "F": "(Array Int (Array Int Iface))"}
var heapElemSort = map[string]string{"R": "Int", "I": "Int", "B": "Bool", "Q": "BSeq", "L": "Slice", "P": "Ptr", "F": "Iface"}
var heapZero = map[string]string{"R": "zI", "I": "zI", "B": "zB", "Q": "zQ", "L": "zL", "P": "zP", "F": "zF"}
var arrcopyFn = map[string]string{"R": "arrcopy", "I": "arrcopy", "B": "arrcopyB", "Q": "arrcopyQ", "L": "arrcopyL", "P": "arrcopyP", "F": "arrcopyF"}

func init() {
	for _, k := range []string{"I", "B", "Q", "L", "P", "F", "R"} {
		heapSort["M"+k] = heapSort[k]
		heapZero["M"+k] = heapZero[k]
		heapElemSort["M"+k] = heapElemSort[k]
	}
	heapSort["G"] = heapSort["I"]
	heapZero["G"] = "zI"
	heapElemSort["G"] = "Int"
	arrcopyFn["G"] = "arrcopy"
	heapSort["MD"] = heapSort["B"]
	heapZero["MD"] = "zB"
	heapElemSort["MD"] = "Bool"
}

// kind of a one-slot type
func kindOf(t types.Type) string {
	switch u := t.Underlying().(type) {
	case *types.Basic:
		switch {
		case u.Info()&types.IsBoolean != 0:
			return "B"
		case u.Info()&types.IsString != 0:
			return "Q"
		default:
			return "I"
		}
	case *types.Slice:
		return "L"
	case *types.Pointer:
		return "P"
	case *types.Interface, *types.Signature:
		return "F"
	case *types.Map, *types.Chan:
		return "R" // references to map / channel objects live in their own heap kind (so that heap well-formedness can be stated for them)
	}
	return ""
}

func isString(t types.Type) bool {
	b, ok := t.Underlying().(*types.Basic)
	return ok && b.Info()&types.IsString != 0
}
func isBool(t types.Type) bool {
	b, ok := t.Underlying().(*types.Basic)
	return ok && b.Info()&types.IsBoolean != 0
}

func (g *Gen) sortOf(t types.Type) string {
	switch u := t.Underlying().(type) {
	case *types.Basic:
		switch {
		case u.Info()&types.IsBoolean != 0:
			return "Bool"
		case u.Info()&types.IsString != 0:
			return "BSeq"
		default:
			return "Int"
		}
	case *types.Slice:
		return "Slice"
	case *types.Pointer:
		return "Ptr"
	case *types.Interface, *types.Signature:
		return "Iface"
	case *types.Map, *types.Chan:
		return "Int"
	case *types.Array:
		return fmt.Sprintf("(Array Int %s)", g.sortOf(u.Elem()))
	case *types.Struct:
		key := t.String()
		if _, isNamed := t.(*types.Named); !isNamed {
			key = u.String()
		}
		if s, ok := g.structs[key]; ok {
			return s
		}
		name := g.fresh("S")
		g.structs[key] = name
		var fs []string
		for i := 0; i < u.NumFields(); i++ {
			fs = append(fs, fmt.Sprintf("(%s_f%d %s)", name, i, g.sortOf(u.Field(i).Type())))
		}
		if len(fs) == 0 {
			fs = append(fs, fmt.Sprintf("(%s_dummy Int)", name))
		}
		g.pre = append(g.pre, fmt.Sprintf("(declare-datatypes ((%s 0)) (((mk%s %s))))", name, name, strings.Join(fs, " ")))
		return name
	case *types.Tuple:
		return "TUPLE"
	case *types.TypeParam:
		return "Iface"
	}
	panic("sortOf: " + t.String())
}

func (g *Gen) zero(t types.Type) string {
	switch u := t.Underlying().(type) {
	case *types.Basic:
		switch {
		case u.Info()&types.IsBoolean != 0:
			return "false"
		case u.Info()&types.IsString != 0:
			return "sempty"
		default:
			return "0"
		}
	case *types.Slice:
		return "nilSlice"
	case *types.Pointer:
		return "nilPtr"
	case *types.Interface, *types.Signature:
		return "nilIface"
	case *types.Map, *types.Chan:
		return "0"
	case *types.Array:
		if g.sortOf(u.Elem()) == "BSeq" {
			return "zQ"
		}
		return fmt.Sprintf("((as const %s) %s)", g.sortOf(t), g.zero(u.Elem()))
	case *types.Struct:
		s := g.sortOf(t)
		if u.NumFields() == 0 {
			return fmt.Sprintf("(mk%s 0)", s)
		}
		var fs []string
		for i := 0; i < u.NumFields(); i++ {
			fs = append(fs, g.zero(u.Field(i).Type()))
		}
		return fmt.Sprintf("(mk%s %s)", s, strings.Join(fs, " "))
	case *types.TypeParam:
		return "nilIface"
	}
	panic("zero: " + t.String())
}

func slots(t types.Type) int {
	switch u := t.Underlying().(type) {
	case *types.Struct:
		n := 0
		for i := 0; i < u.NumFields(); i++ {
			n += slots(u.Field(i).Type())
		}
		if n == 0 {
			return 1
		}
		return n
	case *types.Array:
		return int(u.Len()) * slots(u.Elem())
	}
	return 1
}

func fieldSlot(st *types.Struct, idx int) int {
	n := 0
	for i := 0; i < idx; i++ {
		n += slots(st.Field(i).Type())
	}
	return n
}

func intBits(t types.Type) (bits int, signed bool, ok bool) {
	b, isB := t.Underlying().(*types.Basic)
	if !isB || b.Info()&types.IsInteger == 0 {
		return 0, false, false
	}
	switch b.Kind() {
	case types.Int8:
		return 8, true, true
	case types.Int16:
		return 16, true, true
	case types.Int32:
		return 32, true, true
	case types.Int64, types.Int, types.UntypedInt, types.UntypedRune:
		return 64, true, true
	case types.Uint8:
		return 8, false, true
	case types.Uint16:
		return 16, false, true
	case types.Uint32:
		return 32, false, true
	case types.Uint64, types.Uint, types.Uintptr:
		return 64, false, true
	}
	return 0, false, false
}

func pow2(n int) string { return new(big.Int).Lsh(big.NewInt(1), uint(n)).String() }

func rangeFact(t types.Type, term string) string {
	bits, signed, ok := intBits(t)
	if !ok {
		return ""
	}
	if signed {
		return fmt.Sprintf("(and (<= (- %s) %s) (< %s %s))", pow2(bits-1), term, term, pow2(bits-1))
	}
	return fmt.Sprintf("(and (<= 0 %s) (< %s %s))", term, term, pow2(bits))
}

// wrap an arithmetic result to the type's width (A1: 64-bit is mathematical)
func wrap(t types.Type, term string) string {
	bits, signed, ok := intBits(t)
	if !ok || bits == 64 {
		return term
	}
	if !signed {
		return fmt.Sprintf("(mod %s %s)", term, pow2(bits))
	}
	return fmt.Sprintf("(- (mod (+ %s %s) %s) %s)", term, pow2(bits-1), pow2(bits), pow2(bits-1))
}

// ---------- symbolic state ----------

type State struct {
	H    map[string]string
	Next string
}

func (s *State) clone() *State {
	n := &State{H: map[string]string{}, Next: s.Next}
	for k, v := range s.H {
		n.H[k] = v
	}
	return n
}

func (g *Gen) freshState(base string) *State {
	s := &State{H: map[string]string{}}
	for _, k := range heapKinds {
		s.H[k] = g.havoc(base+"_H"+k, heapSort[k])
	}
	s.Next = g.havoc(base+"_next", "Int")
	return s
}

// elemKind: the base kind (I,B,Q,L,P,F) of a heap kind (map heaps share the element sorts)
func elemKind(k string) string {
	if k == "MD" {
		return "B"
	}
	if k == "R" || k == "MR" || k == "G" {
		return "I"
	}
	if strings.HasPrefix(k, "M") {
		return k[1:]
	}
	return k
}

// framedHeap returns a heap that agrees with h on every reference below bound except the references in mods
// (whose rows are arbitrary) and is arbitrary at and above bound. No quantifier is introduced (hmerge axiom of the prelude).
func (g *Gen) framedHeap(base, k, h, bound string, mods []string, allocates bool) string {
	return g.framedHeapK(base, k, h, bound, mods, nil, allocates)
}

// modTarget: one modifies target of a call: the object ref, the heap kinds its type has, and for slices the
// range of slots that may change (the rest of the object is unchanged)
type modTarget struct {
	kinds    map[string]bool
	off, len string // "" = whole object
	// pointer targets: the slots of the pointee by heap kind (relative to off); the havoc is a chain of stores
	slotsK map[string][]int
}

// modRange: one modifies target of the function under verification: slots [lo,hi) of object ref (lo == "": whole object)
type modRange struct{ ref, lo, hi string }

// modsetR: slots [lo,hi) of object ref lie within one modifies target of the function under verification
func (g *Gen) modsetR(ref, lo, hi string) string {
	if g.modAll {
		return "true"
	}
	var alts []string
	for _, m := range g.modRanges {
		if m.lo == "" {
			alts = append(alts, fmt.Sprintf("(= %s %s)", ref, m.ref))
		} else if lo != "" {
			alts = append(alts, fmt.Sprintf("(and (= %s %s) (<= %s %s) (<= %s %s))", ref, m.ref, m.lo, lo, hi, m.hi))
		}
	}
	if len(alts) == 0 {
		return "false"
	}
	if len(alts) == 1 {
		return alts[0]
	}
	return "(or " + strings.Join(alts, " ") + ")"
}

// kindSlots: slot offsets of an inline value of type t by heap kind
func kindSlots(t types.Type, base int, out map[string][]int) {
	switch u := t.Underlying().(type) {
	case *types.Struct:
		for i := 0; i < u.NumFields(); i++ {
			kindSlots(u.Field(i).Type(), base+fieldSlot(u, i), out)
		}
		return
	case *types.Array:
		n := slots(u.Elem())
		for i := 0; i < int(u.Len()); i++ {
			kindSlots(u.Elem(), base+i*n, out)
		}
		return
	}
	if k := kindOf(t); k != "" {
		out[k] = append(out[k], base)
	}
}

func (g *Gen) framedHeapK(base, k, h, bound string, mods []string, modKinds []modTarget, allocates bool) string {
	cur := h
	ek := elemKind(k)
	for i, m := range mods {
		if modKinds != nil && i < len(modKinds) && modKinds[i].kinds != nil && !modKinds[i].kinds[k] {
			continue
		}
		if modKinds != nil && i < len(modKinds) && modKinds[i].slotsK != nil {
			offs := modKinds[i].slotsK[k]
			if len(offs) == 0 {
				continue
			}
			rowt := fmt.Sprintf("(select %s %s)", cur, m)
			for _, o := range offs {
				v := g.havoc(base+"_slot"+k, heapElemSort[k])
				rowt = fmt.Sprintf("(store %s (+ %s %d) %s)", rowt, modKinds[i].off, o, v)
			}
			cur = fmt.Sprintf("(store %s %s %s)", cur, m, rowt)
			continue
		}
		if modKinds != nil && i < len(modKinds) && modKinds[i].off != "" {
			row := g.havoc(base+"_rng"+k, fmt.Sprintf("(Array Int %s)", heapElemSort[k]))
			cur = fmt.Sprintf("(store %s %s (%s (select %s %s) %s %s %s %s))", cur, m, arrcopyFn[ek], cur, m, modKinds[i].off, row, modKinds[i].off, modKinds[i].len)
			continue
		}
		row := g.havoc(base+"_row"+k, fmt.Sprintf("(Array Int %s)", heapElemSort[k]))
		cur = fmt.Sprintf("(store %s %s %s)", cur, m, row)
	}
	if allocates {
		fresh := g.havoc(base+"_new"+k, heapSort[k])
		cur = fmt.Sprintf("(hmerge%s %s %s %s)", ek, cur, fresh, bound)
	}
	if cur == h {
		return h
	}
	return g.def(base+"_H"+k, heapSort[k], cur)
}

// ---------- activation ----------

type retInfo struct {
	reach string
	vals  []string
	st    *State
	instr *ssa.Return
}

type deferRec struct {
	call  *ssa.Defer
	reach string
	args  []string
}

type Act struct {
	g       *Gen
	fn      *ssa.Function
	prefix  string
	env     map[ssa.Value]string
	depth   int
	top     bool
	reach   map[*ssa.BasicBlock]string
	stOut   map[*ssa.BasicBlock]*State
	edge    map[[2]int]string
	rets    []retInfo
	entry   *State
	path    string // obligation name prefix (call chain)
	loops   []*loopCtx
	dbg     map[string]ssa.Value
	args    []string
	tuples  map[ssa.Value][]string
	parent  *Act
	ct      *Contract
	defers  []deferRec
	curBlk  *ssa.BasicBlock
	lets    map[string]tv // contract "let" bindings evaluated at entry
	loopOf  map[*ssa.BasicBlock][]*ssa.BasicBlock // block -> headers of loops containing it
	panicked string
	preEnv  map[ssa.Value]string
	curReach string
	firedCuts map[*Cut]bool
	firedSites map[*CallSite]int
	lastCall   map[string]*callRec
	unrollN  int                       // loops of this (inlined) function are unrolled this many times instead of being cut by invariants
	unr      *unrollCtx                // the loop being unrolled right now
	skip     map[*ssa.BasicBlock]bool  // blocks already executed by an unrolling
	letsAtEntry bool                   // (inlined callee with its own loop invariants) evaluate the contract's lets at entry
}

// unrollCtx: bookkeeping of one loop while it is unrolled (DESIGN 13.6). Back edges and exit edges of the current iteration are
// recorded instead of being cut / merged directly.
type unrollCtx struct {
	header *ssa.BasicBlock
	in     map[*ssa.BasicBlock]bool
	backs  []unrEdge
	exits  map[[2]int][]unrEdge
	exitOrder [][2]int
	curIt  int
}

type unrEdge struct {
	from *ssa.BasicBlock
	cond string
	st   *State
	it   int
}

func (a *Act) nm(base string) string { return a.prefix + base }

func isBackEdge(from, to *ssa.BasicBlock) bool { return to.Dominates(from) }

func hasLoops(fn *ssa.Function) bool {
	for _, b := range fn.Blocks {
		for _, s := range b.Succs {
			if isBackEdge(b, s) {
				return true
			}
		}
	}
	return false
}

func topoOrder(fn *ssa.Function) []*ssa.BasicBlock {
	var order []*ssa.BasicBlock
	seen := map[*ssa.BasicBlock]bool{}
	var visit func(b *ssa.BasicBlock)
	visit = func(b *ssa.BasicBlock) {
		if seen[b] {
			return
		}
		seen[b] = true
		for _, s := range b.Succs {
			if !isBackEdge(b, s) {
				visit(s)
			}
		}
		order = append(order, b)
	}
	visit(fn.Blocks[0])
	for i, j := 0, len(order)-1; i < j; i, j = i+1, j-1 {
		order[i], order[j] = order[j], order[i]
	}
	return order
}

func (a *Act) pos(p token.Pos) token.Position { return a.g.prog.Fset.Position(p) }

// val returns the SMT term of an ssa.Value.
func (a *Act) val(v ssa.Value) string {
	g := a.g
	switch v := v.(type) {
	case *ssa.Const:
		return g.constTerm(v)
	case *ssa.Global:
		return fmt.Sprintf("(mkPtr (- %d) 0)", g.eng.globalID(v))
	case *ssa.Function:
		t := fmt.Sprintf("(mkIface %d (bOpaque %d))", g.tag(v.Type()), g.eng.funcID(v))
		g.eng.funcByTerm[t] = v
		if g.fnValues == nil {
			g.fnValues = map[string]*ssa.Function{}
		}
		g.fnValues[t] = v
		return t
	case *ssa.Builtin:
		return "nilIface"
	}
	if t, ok := a.env[v]; ok {
		return t
	}
	panic(fmt.Sprintf("val: unbound %s (%T) in %s", v.Name(), v, a.fn))
}

func (g *Gen) constTerm(c *ssa.Const) string {
	t := c.Type()
	if c.Value == nil {
		return g.zero(t)
	}
	switch c.Value.Kind() {
	case constant.Bool:
		if constant.BoolVal(c.Value) {
			return "true"
		}
		return "false"
	case constant.Int:
		i, _ := new(big.Int).SetString(c.Value.ExactString(), 10)
		return bigTerm(i)
	case constant.String:
		return g.strLit(constant.StringVal(c.Value))
	case constant.Float:
		// durations etc. never float here; model as opaque
		return "0"
	}
	panic("const: " + c.String())
}

func bigTerm(i *big.Int) string {
	if i.Sign() < 0 {
		return fmt.Sprintf("(- %s)", new(big.Int).Neg(i).String())
	}
	return i.String()
}

func (g *Gen) strLit(s string) string {
	if s == "" {
		return "sempty"
	}
	if n, ok := g.strConst[s]; ok {
		return n
	}
	n := g.fresh("str")
	g.strConst[s] = n
	g.pre = append(g.pre, fmt.Sprintf("(declare-fun %s () BSeq)", n))
	parts := []string{fmt.Sprintf("(= (slen %s) %d)", n, len(s))}
	if len(s) <= 64 {
		for i := 0; i < len(s); i++ {
			parts = append(parts, fmt.Sprintf("(= (sat %s %d) %d)", n, i, s[i]))
		}
	}
	g.pre = append(g.pre, fmt.Sprintf("(assert (and %s))", strings.Join(parts, " ")))
	return n
}

// ---------- memory ----------

func sel(h, ref, off string) string { return fmt.Sprintf("(select (select %s %s) %s)", h, ref, off) }
func sto(h, ref, off, v string) string {
	return fmt.Sprintf("(store %s %s (store (select %s %s) %s %s))", h, ref, h, ref, off, v)
}
func add(a, b string) string {
	if b == "0" {
		return a
	}
	if a == "0" {
		return b
	}
	return fmt.Sprintf("(+ %s %s)", a, b)
}

func (a *Act) load(st *State, t types.Type, ref, off string) string {
	g := a.g
	switch u := t.Underlying().(type) {
	case *types.Struct:
		s := g.sortOf(t)
		if u.NumFields() == 0 {
			return fmt.Sprintf("(mk%s 0)", s)
		}
		var fs []string
		for i := 0; i < u.NumFields(); i++ {
			fs = append(fs, a.load(st, u.Field(i).Type(), ref, add(off, fmt.Sprint(fieldSlot(u, i)))))
		}
		return fmt.Sprintf("(mk%s %s)", s, strings.Join(fs, " "))
	case *types.Array:
		if k := kindOf(u.Elem()); k == "I" && slots(u.Elem()) == 1 {
			return fmt.Sprintf("(arrshift (select %s %s) %s)", st.H["I"], ref, off)
		}
		g.note("UNSUPPORTED load of array type %s (havoc)", t)
		g.unsupported++
		return g.havoc("arr", g.sortOf(t))
	}
	return sel(st.H[kindOf(t)], ref, off)
}

func (a *Act) store(st *State, t types.Type, ref, off, v string) {
	g := a.g

	switch u := t.Underlying().(type) {
	case *types.Struct:
		s := g.sortOf(t)
		for i := 0; i < u.NumFields(); i++ {
			a.store(st, u.Field(i).Type(), ref, add(off, fmt.Sprint(fieldSlot(u, i))), fmt.Sprintf("(%s_f%d %s)", s, i, v))
		}
		return
	case *types.Array:
		if k := kindOf(u.Elem()); k == "I" && slots(u.Elem()) == 1 {
			st.H["I"] = g.def("HI", heapSort["I"], fmt.Sprintf("(store %s %s (arrcopy (select %s %s) %s %s 0 %d))", st.H["I"], ref, st.H["I"], ref, off, v, u.Len()))
			return
		}
		g.note("UNSUPPORTED store of array type %s (havoc kind)", t)
		g.unsupported++
		return
	}
	k := kindOf(t)
	st.H[k] = g.def("H"+k, heapSort[k], sto(st.H[k], ref, off, v))
}

func (a *Act) alloc(st *State, base string, at allocType) string {
	ref := a.allocLocal(st, base, at)
	a.g.escBump(st)
	return ref
}

// allocLocal: an allocation that cannot outlive the function (a non-escaping local variable, a ghost iterator)
func (a *Act) allocLocal(st *State, base string, at allocType) string {
	g := a.g
	ref := g.def(base+"_ref", "Int", st.Next)
	// guarded by the path condition: allocations on different paths may receive the same reference number
	reach := a.curReach
	if reach == "" {
		reach = "true"
	}
	g.assumeIf(reach, fmt.Sprintf("(= (rtype %s) %d)", ref, g.allocTag(at)))
	st.Next = g.def("next", "Int", fmt.Sprintf("(+ %s 1)", ref))
	// only the heap kinds that an object of this type has are initialised (the others are never read at this reference)
	kinds := map[string]bool{}
	allocKinds(at.typ, kinds)
	for _, k := range heapKinds {
		if !kinds[k] {
			continue
		}
		st.H[k] = g.def("H"+k, heapSort[k], fmt.Sprintf("(store %s %s %s)", st.H[k], ref, heapZero[k]))
	}
	return ref
}

// allocKinds: heap kinds used by an object of type t (maps: domain and value heaps)
func allocKinds(t types.Type, w map[string]bool) {
	switch u := t.Underlying().(type) {
	case *types.Map:
		w["MD"] = true
		if slots(u.Elem()) == 1 && kindOf(u.Elem()) != "" {
			w["M"+kindOf(u.Elem())] = true
		}
	case *types.Chan:
	default:
		typeKinds(t, w)
	}
}

// targetKinds: heap kinds of the object a modifies-target value refers to
func targetKinds(t types.Type) map[string]bool {
	w := map[string]bool{}
	switch u := t.Underlying().(type) {
	case *types.Pointer:
		allocKinds(u.Elem(), w)
	case *types.Slice:
		allocKinds(u.Elem(), w)
	case *types.Map:
		allocKinds(u, w)
	default:
		for _, k := range heapKinds {
			w[k] = true
		}
	}
	return w
}

// ---------- driver for one function body ----------

type edgeIn struct {
	pred *ssa.BasicBlock
	cond string
}

func (a *Act) run(args []string, st0 *State, reach0 string) {
	g := a.g
	fn := a.fn
	a.env = map[ssa.Value]string{}
	a.reach = map[*ssa.BasicBlock]string{}
	a.stOut = map[*ssa.BasicBlock]*State{}
	a.edge = map[[2]int]string{}
	a.args = args
	for i, p := range fn.Params {
		a.env[p] = args[i]
	}
	for k, v := range a.preEnv {
		a.env[k] = v
	}
	a.entry = st0.clone()
	if a.letsAtEntry && a.ct != nil {
		a.lets = map[string]tv{}
		for _, l := range a.ct.Lets {
			e := a.newEnv(st0, nil, nil)
			a.lets[l.Label] = e.value(e.eval(l.Expr))
		}
	}
	if a.dbg == nil {
		a.dbg = map[string]ssa.Value{}
	}
	a.computeLoops()
	order := topoOrder(fn)
	for _, b := range order {
		if a.skip[b] {
			continue
		}
		var ins []edgeIn
		var backs []*ssa.BasicBlock
		for _, p := range b.Preds {
			if isBackEdge(p, b) {
				backs = append(backs, p)
				continue
			}
			if c, ok := a.edge[[2]int{p.Index, b.Index}]; ok {
				ins = append(ins, edgeIn{p, c})
			}
		}
		var st *State
		var reach string
		if b.Index == 0 {
			st = st0.clone()
			reach = reach0
		} else {
			if len(ins) == 0 {
				continue // unreachable (e.g. recover block)
			}
			var cs []string
			for _, e := range ins {
				cs = append(cs, e.cond)
			}
			if len(cs) == 1 {
				reach = cs[0]
			} else {
				reach = g.def(a.nm(fmt.Sprintf("reach_b%d", b.Index)), "Bool", "(or "+strings.Join(cs, " ")+")")
			}
			st = a.mergeStates(ins)
		}
		a.reach[b] = reach
		a.curReach = reach
		a.curBlk = b
		isHeader := len(backs) > 0
		if isHeader && a.unrollN > 0 {
			a.unrollLoop(b, ins, st, reach, order)
			continue
		}
		if isHeader {
			st = a.loopHead(b, ins, backs, st, reach)
		} else {
			for _, instr := range b.Instrs {
				phi, ok := instr.(*ssa.Phi)
				if !ok {
					break
				}
				a.env[phi] = a.phiTerm(phi, ins)
			}
		}
		for ii, instr := range b.Instrs {
			if _, ok := instr.(*ssa.Phi); ok {
				continue
			}
			a.exec(instr, st, reach, b)
			if (a.top || a.letsAtEntry) && a.ct != nil && len(a.ct.Cuts) > 0 {
				if a.firedCuts == nil {
					a.firedCuts = map[*Cut]bool{}
				}
				a.fireCuts(b, ii, st, reach)
			}
		}
		a.stOut[b] = st
	}
}

// unrollLoop executes the natural loop with header h a.unrollN times in place: iteration j+1 starts from the states and
// values on the back edges of iteration j; exits of all iterations are merged for the code after the loop; that no
// further iteration is possible after the last one is an obligation (unwinding assertion), so the result is complete.
func (a *Act) unrollLoop(h *ssa.BasicBlock, ins []edgeIn, st0 *State, reach0 string, order []*ssa.BasicBlock) {
	g := a.g
	u := &unrollCtx{header: h, in: map[*ssa.BasicBlock]bool{}, exits: map[[2]int][]unrEdge{}}
	var body []*ssa.BasicBlock
	for _, b := range order {
		for _, hh := range a.loopOf[b] {
			if hh == h {
				u.in[b] = true
				body = append(body, b)
				break
			}
		}
	}
	if a.skip == nil {
		a.skip = map[*ssa.BasicBlock]bool{}
	}
	for _, b := range body {
		a.skip[b] = true
		for _, hh := range a.loopOf[b] {
			if hh != h && u.in[hh] {
				panic(fmt.Sprintf("unroll: nested loop inside unrolled loop of %s", shortFn(a.fn)))
			}
		}
	}
	saved := a.unr
	a.unr = u
	defer func() { a.unr = saved }()
	lname := fmt.Sprintf("%sloop%d", a.path, a.loopIndex(h))
	// values defined in the loop, per iteration (for uses after the loop)
	type snap struct {
		env map[ssa.Value]string
		tup map[ssa.Value][]string
	}
	var snaps []snap
	var exitAny []string // per iteration: some exit edge of that iteration is taken
	var phiNext map[*ssa.Phi]string
	for it := 0; it < a.unrollN; it++ {
		// forget the forward edges of the previous iteration
		for k := range a.edge {
			if u.in[a.fn.Blocks[k[0]]] {
				delete(a.edge, k)
			}
		}
		prevBacks := u.backs
		u.backs = nil
		u.curIt = it
		for _, b := range body {
			var st *State
			var reach string
			var bins []edgeIn
			if b == h {
				if it == 0 {
					st, reach = st0.clone(), reach0
					for _, instr := range b.Instrs {
						if phi, ok := instr.(*ssa.Phi); ok {
							a.env[phi] = a.phiTerm(phi, ins)
						}
					}
				} else {
					if len(prevBacks) == 0 {
						break
					}
					var cs []string
					var sts []*State
					for _, e := range prevBacks {
						cs = append(cs, e.cond)
						sts = append(sts, e.st)
					}
					reach = cs[0]
					if len(cs) > 1 {
						reach = g.def(a.nm(fmt.Sprintf("unr%d_reach", it)), "Bool", "(or "+strings.Join(cs, " ")+")")
					}
					st = g.mergeStateList(sts, cs)
					for phi, t := range phiNext {
						a.env[phi] = t
					}
				}
			} else {
				for _, p := range b.Preds {
					if c, ok := a.edge[[2]int{p.Index, b.Index}]; ok {
						bins = append(bins, edgeIn{p, c})
					}
				}
				if len(bins) == 0 {
					continue
				}
				var cs []string
				for _, e := range bins {
					cs = append(cs, e.cond)
				}
				reach = cs[0]
				if len(cs) > 1 {
					reach = g.def(a.nm(fmt.Sprintf("reach_b%d", b.Index)), "Bool", "(or "+strings.Join(cs, " ")+")")
				}
				st = a.mergeStates(bins)
				for _, instr := range b.Instrs {
					phi, ok := instr.(*ssa.Phi)
					if !ok {
						break
					}
					a.env[phi] = a.phiTerm(phi, bins)
				}
			}
			a.reach[b] = reach
			a.curReach = reach
			a.curBlk = b
			for _, instr := range b.Instrs {
				if _, ok := instr.(*ssa.Phi); ok {
					continue
				}
				a.exec(instr, st, reach, b)
			}
			a.stOut[b] = st
		}
		if it > 0 && len(prevBacks) == 0 {
			break
		}
		// header phis of the next iteration: parallel assignment from the back edges of this one
		phiNext = map[*ssa.Phi]string{}
		for _, instr := range h.Instrs {
			phi, ok := instr.(*ssa.Phi)
			if !ok {
				break
			}
			term := ""
			for i := len(u.backs) - 1; i >= 0; i-- {
				e := u.backs[i]
				var v string
				for j, p := range h.Preds {
					if p == e.from {
						v = a.val(phi.Edges[j])
					}
				}
				if term == "" {
					term = v
				} else {
					term = fmt.Sprintf("(ite %s %s %s)", e.cond, v, term)
				}
			}
			if term != "" {
				phiNext[phi] = g.def(a.nm(phi.Name()), g.sortOf(phi.Type()), term)
			}
		}
		// snapshot of the values defined in the loop
		sn := snap{env: map[ssa.Value]string{}, tup: map[ssa.Value][]string{}}
		for _, b := range body {
			for _, instr := range b.Instrs {
				if v, ok := instr.(ssa.Value); ok {
					if t, bound := a.env[v]; bound {
						sn.env[v] = t
					}
					if t, bound := a.tuples[v]; bound {
						sn.tup[v] = t
					}
				}
			}
		}
		snaps = append(snaps, sn)
		var ex []string
		for _, k := range u.exitOrder {
			for _, e := range u.exits[k] {
				if e.it == it {
					ex = append(ex, e.cond)
				}
			}
		}
		if len(ex) == 0 {
			exitAny = append(exitAny, "false")
		} else {
			exitAny = append(exitAny, g.def(a.nm(fmt.Sprintf("unr%d_exit", it)), "Bool", "(or "+strings.Join(ex, " ")+" false)"))
		}
	}
	// unwinding assertion: no further iteration
	for _, e := range u.backs {
		g.oblige("unwind", lname, e.cond, "false", a.pos(loopPos(h)), fmt.Sprintf("the loop is left after at most %d iterations (it is unrolled %d times)", a.unrollN, a.unrollN))
		g.assumeIf(e.cond, "false")
	}
	// exits: merged over the iterations
	for _, k := range u.exitOrder {
		es := u.exits[k]
		var cs []string
		var sts []*State
		for _, e := range es {
			cs = append(cs, e.cond)
			sts = append(sts, e.st)
		}
		c := cs[0]
		if len(cs) > 1 {
			c = g.def(a.nm(fmt.Sprintf("unr_exit_%d_%d", k[0], k[1])), "Bool", "(or "+strings.Join(cs, " ")+")")
		}
		a.edge[k] = c
		a.stOut[a.fn.Blocks[k[0]]] = g.mergeStateList(sts, cs)
	}
	// values defined in the loop and used after it: the value of the iteration in which the loop was left
	if len(snaps) > 1 {
		for _, b := range body {
			for _, instr := range b.Instrs {
				v, ok := instr.(ssa.Value)
				if !ok || v.Referrers() == nil {
					continue
				}
				usedOutside := false
				for _, r := range *v.Referrers() {
					if !u.in[r.Block()] {
						usedOutside = true
					}
				}
				if !usedOutside {
					continue
				}
				if _, isTup := v.Type().(*types.Tuple); isTup {
					last := snaps[len(snaps)-1].tup[v]
					if last == nil {
						continue
					}
					out := make([]string, len(last))
					for i := range last {
						term := last[i]
						for j := len(snaps) - 2; j >= 0; j-- {
							if t := snaps[j].tup[v]; t != nil {
								term = fmt.Sprintf("(ite %s %s %s)", exitAny[j], t[i], term)
							}
						}
						out[i] = term
					}
					a.tuples[v] = out
					continue
				}
				term, bound := snaps[len(snaps)-1].env[v]
				if !bound {
					continue
				}
				for j := len(snaps) - 2; j >= 0; j-- {
					if t, ok := snaps[j].env[v]; ok && t != term {
						term = fmt.Sprintf("(ite %s %s %s)", exitAny[j], t, term)
					}
				}
				a.env[v] = g.def(a.nm(v.Name()+"_after"), g.sortOf(v.Type()), term)
			}
		}
	}
}

func (a *Act) phiTerm(phi *ssa.Phi, ins []edgeIn) string {
	g := a.g
	b := phi.Block()
	term := ""
	for i := len(ins) - 1; i >= 0; i-- {
		e := ins[i]
		var v string
		for j, p := range b.Preds {
			if p == e.pred {
				v = a.val(phi.Edges[j])
			}
		}
		if term == "" {
			term = v
		} else {
			term = fmt.Sprintf("(ite %s %s %s)", e.cond, v, term)
		}
	}
	if _, ok := phi.Type().(*types.Tuple); ok {
		panic("phi of tuple")
	}
	return g.def(a.nm(phi.Name()), g.sortOf(phi.Type()), term)
}

func (a *Act) mergeStates(ins []edgeIn) *State {
	if len(ins) == 1 {
		return a.stOut[ins[0].pred].clone()
	}
	var sts []*State
	var conds []string
	for _, e := range ins {
		sts = append(sts, a.stOut[e.pred])
		conds = append(conds, e.cond)
	}
	return a.g.mergeStateList(sts, conds)
}

func (g *Gen) mergeStateList(sts []*State, conds []string) *State {
	if len(sts) == 1 {
		return sts[0].clone()
	}
	st := &State{H: map[string]string{}}
	merge := func(get func(*State) string, base, sort string) string {
		first := get(sts[0])
		same := true
		for _, s := range sts[1:] {
			if get(s) != first {
				same = false
			}
		}
		if same {
			return first
		}
		term := get(sts[len(sts)-1])
		for i := len(sts) - 2; i >= 0; i-- {
			term = fmt.Sprintf("(ite %s %s %s)", conds[i], get(sts[i]), term)
		}
		return g.def(base, sort, term)
	}
	for _, k := range heapKinds {
		k := k
		st.H[k] = merge(func(s *State) string { return s.H[k] }, "H"+k+"m", heapSort[k])
	}
	st.Next = merge(func(s *State) string { return s.Next }, "nextm", "Int")
	return st
}

// ---------- loops ----------

type loopCtx struct {
	locksAtHead string
	header    *ssa.BasicBlock
	phis      []*ssa.Phi
	idx       int
	headVals  map[string]string
	headEnv   map[ssa.Value]string
	headState *State
	spec      *LoopSpec
	auto      []autoInv
	lexers    []ssa.Value
	lexInv    func(st *State, v ssa.Value) string
	aliasInv  func(st *State) []string
	freshPhis []*ssa.Phi
	freshTerm func(t string, st *State) string
}

type autoInv struct {
	phi  *ssa.Phi
	rel  string // ">=" or "<="
	c    string
	text string
}

func (a *Act) computeLoops() {
	a.loopOf = map[*ssa.BasicBlock][]*ssa.BasicBlock{}
	for _, h := range a.fn.Blocks {
		var backs []*ssa.BasicBlock
		for _, p := range h.Preds {
			if isBackEdge(p, h) {
				backs = append(backs, p)
			}
		}
		if len(backs) == 0 {
			continue
		}
		// natural loop: blocks that reach a back-edge source without passing through h
		in := map[*ssa.BasicBlock]bool{h: true}
		var stack []*ssa.BasicBlock
		for _, b := range backs {
			if !in[b] {
				in[b] = true
				stack = append(stack, b)
			}
		}
		for len(stack) > 0 {
			b := stack[len(stack)-1]
			stack = stack[:len(stack)-1]
			for _, p := range b.Preds {
				if !in[p] {
					in[p] = true
					stack = append(stack, p)
				}
			}
		}
		for b := range in {
			a.loopOf[b] = append(a.loopOf[b], h)
		}
	}
}

func (a *Act) loopIndex(b *ssa.BasicBlock) int {
	// ordinal of loop header in source order (by position of the header's first positioned instruction; falls back to block order)
	type hp struct {
		b   *ssa.BasicBlock
		pos token.Pos
	}
	var hs []hp
	for _, bb := range a.fn.Blocks {
		hdr := false
		for _, p := range bb.Preds {
			if isBackEdge(p, bb) {
				hdr = true
			}
		}
		if hdr {
			hs = append(hs, hp{bb, loopPos(bb)})
		}
	}
	sort.SliceStable(hs, func(i, j int) bool { return hs[i].pos < hs[j].pos })
	for i, h := range hs {
		if h.b == b {
			return i
		}
	}
	return -1
}

func loopPos(b *ssa.BasicBlock) token.Pos {
	// smallest valid position among instructions of the loop header and its body entry
	var best token.Pos
	consider := func(p token.Pos) {
		if p.IsValid() && (best == 0 || p < best) {
			best = p
		}
	}
	for _, in := range b.Instrs {
		consider(in.Pos())
	}
	if best == 0 {
		for _, s := range b.Succs {
			for _, in := range s.Instrs {
				consider(in.Pos())
			}
		}
	}
	return best
}

// kindsWrittenInLoop: which heap kinds may be written by blocks of the loop (static over-approximation).
func (a *Act) kindsWrittenInLoop(h *ssa.BasicBlock) map[string]bool {
	w := map[string]bool{}
	for _, b := range a.fn.Blocks {
		inLoop := false
		for _, hh := range a.loopOf[b] {
			if hh == h {
				inLoop = true
			}
		}
		if !inLoop {
			continue
		}
		for _, in := range b.Instrs {
			a.g.eng.instrWrites(in, w, map[*ssa.Function]bool{a.fn: true})
		}
	}
	return w
}

func typeKinds(t types.Type, w map[string]bool) {
	switch u := t.Underlying().(type) {
	case *types.Struct:
		for i := 0; i < u.NumFields(); i++ {
			typeKinds(u.Field(i).Type(), w)
		}
	case *types.Array:
		typeKinds(u.Elem(), w)
	default:
		w[kindOf(t)] = true
	}
}

func (a *Act) loopHead(b *ssa.BasicBlock, ins []edgeIn, backs []*ssa.BasicBlock, stIn *State, reach string) *State {
	g := a.g
	idx := a.loopIndex(b)
	var spec *LoopSpec
	if a.ct != nil {
		spec = a.ct.Loops[idx]
	}
	lc := &loopCtx{header: b, idx: idx, spec: spec, headVals: map[string]string{}}
	// 1. entry values of phis
	entryVals := map[string]string{}
	entryEnv := map[ssa.Value]string{}
	for _, instr := range b.Instrs {
		if phi, ok := instr.(*ssa.Phi); ok {
			lc.phis = append(lc.phis, phi)
			t := a.phiTerm(phi, ins)
			entryVals[phi.Comment] = t
			entryEnv[phi] = t
		}
	}
	// automatic invariants for counters
	for _, phi := range lc.phis {
		if ai, ok := a.autoInvFor(phi, b, backs); ok {
			lc.auto = append(lc.auto, ai)
		}
		// range-over-slice index: the header tests index+1 < n with n computed before the loop: index < n as well
		// (n >= 0: it is a len())
		if phi.Comment == "rangeindex" {
			for _, in := range b.Instrs {
				cmp, ok := in.(*ssa.BinOp)
				if !ok || cmp.Op != token.LSS {
					continue
				}
				inc, ok := cmp.X.(*ssa.BinOp)
				if !ok || inc.Op != token.ADD || inc.X != ssa.Value(phi) {
					continue
				}
				if k, ok := constInt(inc.Y); !ok || k.Int64() != 1 {
					continue
				}
				if call, ok := cmp.Y.(*ssa.Call); ok {
					if bi, ok := call.Call.Value.(*ssa.Builtin); ok && bi.Name() == "len" {
						if n, bound := a.env[cmp.Y]; bound {
							lc.auto = append(lc.auto, autoInv{phi, "<", n, "rangeindex < len"})
						}
					}
				}
			}
		}
	}
	p0 := a.pos(loopPos(b))
	lname := fmt.Sprintf("%sloop%d", a.path, idx)
	// slices that are built up locally (nil / make / append of themselves) stay in memory allocated by this call
	for _, phi := range lc.phis {
		if _, isSl := phi.Type().Underlying().(*types.Slice); isSl && rootsFresh(phi, map[ssa.Value]bool{}) {
			lc.freshPhis = append(lc.freshPhis, phi)
		}
	}
	freshTerm := func(t string, st *State) string {
		return fmt.Sprintf("(and (or (= (sref %s) 0) (and (>= (sref %s) %s) (< (sref %s) %s))) (<= 0 (soff %s)) (<= 0 (sllen %s)) (<= (sllen %s) (scap %s)))", t, t, g.entry.Next, t, st.Next, t, t, t, t)
	}
	for _, phi := range lc.freshPhis {
		g.oblige("inv-init", lname+":auto:fresh("+phi.Comment+")", reach, freshTerm(entryEnv[phi], stIn), p0, "automatic invariant: locally built slice stays in fresh memory")
	}
	lc.freshTerm = freshTerm
	// noalias mode: no pre-existing object holds a slice into an input buffer (automatic invariant)
	aliasInv := func(st *State) []string {
		var out []string
		for _, p := range g.inputBufs {
			for _, k := range []string{"L", "ML"} {
				out = append(out, fmt.Sprintf("(forall ((r Int) (o Int)) (! (=> (< r %s) (or (= (sref %s) 0) (not (= (sref (select (select %s r) o)) (sref %s))))) :pattern ((select (select %s r) o))))", g.entry.Next, p, st.H[k], p, st.H[k]))
			}
		}
		return out
	}
	for i, c := range aliasInv(stIn) {
		g.oblige("inv-init", fmt.Sprintf("%s:auto:noalias#%d", lname, i), reach, c, p0, "automatic invariant: no pre-existing object holds a slice into an input buffer")
	}
	lc.aliasInv = aliasInv
	if g.recvSliceInv != nil && a.top {
		for i, c := range g.recvSliceInv(stIn) {
			g.oblige("inv-init", fmt.Sprintf("%s:auto:recv-slices#%d", lname, i), reach, c, p0, "automatic invariant: slices of the receiver use their original array or memory allocated during the call")
		}
	}
	lc.lexers = a.lexersLiveAt(b)
	mcLex := findMacro("lexOK")
	lexInv := func(st *State, v ssa.Value) string {
		e := a.newEnv(st, nil, nil)
		c := e.child()
		c.bound[mcLex.Params[0]] = tv{term: a.val(v), typ: v.Type()}
		inv := c.evalBool(mcLex.Body.Expr)
		if _, isParam := v.(*ssa.Parameter); !isParam {
			// a lexer created in this function (uio.NewBigEndianBuffer): its two objects are fresh and stay the same
			c.bound["l"] = c.bound[mcLex.Params[0]]
			x, _ := parser.ParseExpr("fresh(l) && fresh(l.Buffer) && allocated(l) && allocated(l.Buffer) && exact(l) && exact(l.Buffer) && (ref(l.Buffer.data) == lexref0 || fresh(l.Buffer.data))")
			// lexref0: the data array the lexer had when it was created (its own parameter, or nil); it may only be replaced by fresh arrays
			r0 := "0"
			if call, ok := v.(*ssa.Call); ok && len(call.Call.Args) == 1 {
				if t, bound := a.env[call.Call.Args[0]]; bound {
					r0 = fmt.Sprintf("(sref %s)", t)
				} else if isNilConst(call.Call.Args[0]) {
					r0 = "0"
				} else {
					r0 = fmt.Sprintf("(sref %s)", a.val(call.Call.Args[0]))
				}
			}
			c.bound["lexref0"] = tv{term: r0, typ: tInt}
			inv = fmt.Sprintf("(and %s %s)", inv, c.evalBool(x))
		}
		return inv
	}
	if mcLex == nil {
		lc.lexers = nil
	}
	for _, lv := range lc.lexers {
		g.oblige("inv-init", lname+":auto:lexOK("+lv.Name()+")", reach, lexInv(stIn, lv), p0, "automatic invariant: the lexer stays well-formed")
	}
	// ghost snapshots taken on entry to the loop
	if lc.spec != nil {
		for _, l := range lc.spec.Lets {
			func() {
				defer wrapClauseErr(l)
				e := a.newEnv(stIn, entryEnv, nil)
				if a.lets == nil {
					a.lets = map[string]tv{}
				}
				a.lets[l.Label] = e.value(e.eval(l.Expr))
			}()
		}
	}
	// init obligations
	for _, ai := range lc.auto {
		g.oblige("inv-init", lname+":auto:"+ai.text, reach, fmt.Sprintf("(%s %s %s)", ai.rel, entryEnv[ai.phi], ai.c), p0, ai.text)
	}
	if spec != nil {
		for i, cl := range spec.Invariants {
			for j, c := range a.evalClauseAt(cl, stIn, entryEnv, nil) {
				g.oblige("inv-init", fmt.Sprintf("%s:%s", lname, clauseLabel(cl, i, j)), reach, c, p0, cl.Text)
			}
		}
	}
	// 2. havoc what the loop may change
	written := a.kindsWrittenInLoop(b)
	st := stIn.clone()
	allocates := written["ALLOC"] || written["ALL"]
	if allocates {
		st.Next = g.havoc(a.nm(fmt.Sprintf("loop%d_next", idx)), "Int")
		g.assumeIf(reach, fmt.Sprintf("(>= %s %s)", st.Next, stIn.Next))
	}
	for _, k := range heapKinds {
		base := k
		if strings.HasPrefix(k, "M") && k != "MD" {
			base = k[1:]
		}
		_ = base
		wr := written["ALL"] || written[k]
		if !wr && !allocates {
			continue // untouched
		}
		if !wr {
			// only allocation: everything allocated before the loop is unchanged
			st.H[k] = g.framedHeap(a.nm(fmt.Sprintf("loop%d", idx)), k, stIn.H[k], stIn.Next, nil, true)
			continue
		}
		// written: only the function-level frame is known (memory allocated before entry and outside modifies is unchanged)
		if g.modAll {
			st.H[k] = g.havoc(a.nm(fmt.Sprintf("loop%d_H%s", idx, k)), heapSort[k])
			continue
		}
		st.H[k] = g.framedHeapK(a.nm(fmt.Sprintf("loop%d", idx)), k, g.entry.H[k], g.entry.Next, g.modRefs, g.modKindsOnly, true)
	}
	g.ghostForget(stIn, st, reach)
	if g.trackLocks {
		// the locks held at the loop head are the ones held on entry to the loop (every iteration must restore that:
		// obligation at the back edges)
		st.H["G"] = g.def("HG", heapSort["G"], sto(st.H["G"], ghostLockRef, "0", g.locksNow(stIn)))
		lc.locksAtHead = g.locksNow(stIn)
	}
	if g.trackEsc {
		// the ghost counter of escaping allocations: at least what it was on entry to the loop (the frames above know
		// nothing about it, or would reset it)
		st.H["G"] = g.def("HG", heapSort["G"], sto(st.H["G"], ghostEscRef, "0", g.escNow(stIn)))
		if allocates {
			g.escHavoc(st, reach)
		}
	}
	headEnv := map[ssa.Value]string{}
	for _, phi := range lc.phis {
		n := g.havoc(a.nm(phi.Name()+"_"+phi.Comment), g.sortOf(phi.Type()))
		a.env[phi] = n
		headEnv[phi] = n
		lc.headVals[phi.Comment] = n
		g.assumeIf(reach, rangeFact(phi.Type(), n))
		g.assumeIf(reach, g.heapValWF(phi.Type(), n, st))
	}
	lc.headEnv = headEnv
	for _, ai := range lc.auto {
		g.assumeIf(reach, fmt.Sprintf("(%s %s %s)", ai.rel, headEnv[ai.phi], ai.c))
	}
	if spec != nil {
		for _, cl := range spec.Invariants {
			for _, c := range a.evalClauseAt(cl, st, headEnv, nil) {
				g.assumeIf(reach, c)
			}
		}
	}
	for _, lv := range lc.lexers {
		g.assumeIf(reach, lexInv(st, lv))
	}
	for _, phi := range lc.freshPhis {
		g.assumeIf(reach, freshTerm(headEnv[phi], st))
	}
	for _, c := range aliasInv(st) {
		g.assumeIf(reach, c)
	}
	if g.recvSliceInv != nil && a.top {
		for _, c := range g.recvSliceInv(st) {
			g.assumeIf(reach, c)
		}
	}
	lc.lexInv = lexInv
	lc.headState = st.clone()
	a.loops = append(a.loops, lc)
	if a.top && a.g.eng.probes {
		g.oblige("PROBE", fmt.Sprintf("%s:head-reachable", lname), reach, "false", p0, "must-fail reachability probe after loop invariant").probe = true
	}
	return st
}

// isMapRangeLoop: the loop header tests the ok result of Next on a map (or string) range iterator
func (a *Act) isMapRangeLoop(h *ssa.BasicBlock) bool {
	iff, ok := h.Instrs[len(h.Instrs)-1].(*ssa.If)
	if !ok {
		return false
	}
	ex, ok := iff.Cond.(*ssa.Extract)
	if !ok || ex.Index != 0 {
		return false
	}
	_, isNext := ex.Tuple.(*ssa.Next)
	return isNext
}

// lexersLiveAt: values of type *uio.Lexer defined before the loop (parameters, or instructions in blocks that dominate the header and are outside the loop)
func (a *Act) lexersLiveAt(h *ssa.BasicBlock) []ssa.Value {
	var out []ssa.Value
	isLex := func(t types.Type) bool { return shortName(t.String()) == "*uio.Lexer" }
	for _, p := range a.fn.Params {
		if isLex(p.Type()) {
			if _, ok := a.env[p]; ok {
				out = append(out, p)
			}
		}
	}
	for _, b := range a.fn.Blocks {
		if b == h || !b.Dominates(h) {
			continue
		}
		for _, in := range b.Instrs {
			v, ok := in.(ssa.Value)
			if !ok || v.Type() == nil || !isLex(v.Type()) {
				continue
			}
			if _, isCall := in.(*ssa.Call); !isCall {
				continue
			}
			if _, bound := a.env[v]; bound {
				out = append(out, v)
			}
		}
	}
	return out
}

// autoInvFor recognises counters: phi = [c, phi + k] (k constant) gives phi >= c (k>0) or phi <= c (k<0).
func (a *Act) autoInvFor(phi *ssa.Phi, hdr *ssa.BasicBlock, backs []*ssa.BasicBlock) (autoInv, bool) {
	if _, _, ok := intBits(phi.Type()); !ok {
		return autoInv{}, false
	}
	var init ssa.Value
	sign := 0
	for j, p := range hdr.Preds {
		e := phi.Edges[j]
		if isBackEdge(p, hdr) {
			bo, ok := e.(*ssa.BinOp)
			if !ok || (bo.Op != token.ADD && bo.Op != token.SUB) || bo.X != ssa.Value(phi) {
				if e == ssa.Value(phi) {
					continue
				}
				return autoInv{}, false
			}
			k, ok := constInt(bo.Y)
			if !ok {
				return autoInv{}, false
			}
			s := k.Sign()
			if bo.Op == token.SUB {
				s = -s
			}
			if s == 0 || (sign != 0 && sign != s) {
				return autoInv{}, false
			}
			sign = s
		} else {
			if init != nil && init != e {
				return autoInv{}, false
			}
			init = e
		}
	}
	if init == nil || sign == 0 {
		return autoInv{}, false
	}
	// wrap-around would invalidate the invariant for narrow types; only claim for 64-bit (A1) or when no wrap is possible is not known: restrict to int/int64/uint64
	if bits, _, _ := intBits(phi.Type()); bits != 64 {
		return autoInv{}, false
	}
	c, isC := init.(*ssa.Const)
	var cterm string
	if isC {
		cterm = a.g.constTerm(c)
	} else if _, bound := a.env[init]; bound {
		cterm = a.env[init]
	} else if _, isP := init.(*ssa.Parameter); isP {
		cterm = a.val(init)
	} else {
		return autoInv{}, false
	}
	rel := ">="
	if sign < 0 {
		rel = "<="
	}
	name := phi.Comment
	if name == "" {
		name = phi.Name()
	}
	return autoInv{phi, rel, cterm, fmt.Sprintf("%s %s %s", name, rel, initText(init))}, true
}

func initText(v ssa.Value) string {
	if c, ok := v.(*ssa.Const); ok && c.Value != nil {
		return c.Value.ExactString()
	}
	return "entry(" + v.Name() + ")"
}

func (a *Act) backEdge(from *ssa.BasicBlock, hdr *ssa.BasicBlock, cond string, st *State) {
	g := a.g
	var lc *loopCtx
	for _, l := range a.loops {
		if l.header == hdr {
			lc = l
		}
	}
	if lc == nil {
		panic("back edge to unknown loop header")
	}
	env := map[ssa.Value]string{}
	for _, phi := range lc.phis {
		for j, p := range hdr.Preds {
			if p == from {
				env[phi] = a.val(phi.Edges[j])
			}
		}
	}
	var p1 token.Position
	for i := len(from.Instrs) - 1; i >= 0 && !p1.IsValid(); i-- {
		p1 = a.pos(from.Instrs[i].Pos())
	}
	if !p1.IsValid() {
		p1 = a.pos(loopPos(hdr))
	}
	lname := fmt.Sprintf("%sloop%d", a.path, lc.idx)
	be := 0
	for j, p := range hdr.Preds {
		if p == from {
			be = j
		}
	}
	for _, ai := range lc.auto {
		g.oblige("inv-preserve", fmt.Sprintf("%s:auto:%s:edge%d", lname, ai.text, be), cond, fmt.Sprintf("(%s %s %s)", ai.rel, env[ai.phi], ai.c), p1, ai.text)
	}
	for _, lv := range lc.lexers {
		g.oblige("inv-preserve", fmt.Sprintf("%s:auto:lexOK(%s):edge%d", lname, lv.Name(), be), cond, lc.lexInv(st, lv), p1, "automatic invariant: the lexer stays well-formed")
	}
	for _, phi := range lc.freshPhis {
		g.oblige("inv-preserve", fmt.Sprintf("%s:auto:fresh(%s):edge%d", lname, phi.Comment, be), cond, lc.freshTerm(env[phi], st), p1, "automatic invariant: locally built slice stays in fresh memory")
	}
	if g.recvSliceInv != nil && a.top {
		for i, c := range g.recvSliceInv(st) {
			g.oblige("inv-preserve", fmt.Sprintf("%s:auto:recv-slices#%d:edge%d", lname, i, be), cond, c, p1, "automatic invariant: slices of the receiver use their original array or memory allocated during the call")
		}
	}
	if (a.top || a.letsAtEntry) && a.ct != nil && g.eng.curModes.Post {
		// claims anchored on "the end of an iteration" (`loopend:`): obligations at every back edge, in the state the
		// iteration ends in (names are the function's variables as at a cut; lets captured during the iteration are in
		// scope). Unlike an invariant they are not assumed at the loop head.
		for _, c := range a.ct.Cuts {
			if c.Anchor != "loopend:" || c.Let != "" || c.Use {
				continue
			}
			if a.firedCuts == nil {
				a.firedCuts = map[*Cut]bool{}
			}
			a.firedCuts[c] = true
			for j, t := range a.evalClauseAt(c.Cl, st, nil, nil) {
				g.oblige("cut", fmt.Sprintf("%s:loopend:edge%d", clauseLabel(c.Cl, 0, j), be), cond, t, p1, "at the end of an iteration: "+c.Cl.Text)
			}
		}
	}
	if g.trackLocks && lc.locksAtHead != "" {
		g.oblige("inv-preserve", fmt.Sprintf("%s:auto:locks:edge%d", lname, be), cond, fmt.Sprintf("(= %s %s)", g.locksNow(st), lc.locksAtHead), p1, "lock balance: an iteration releases the mutexes it locks")
	}
	if lc.aliasInv != nil {
		for i, c := range lc.aliasInv(st) {
			g.oblige("inv-preserve", fmt.Sprintf("%s:auto:noalias#%d:edge%d", lname, i, be), cond, c, p1, "automatic invariant: no pre-existing object holds a slice into an input buffer")
		}
	}
	if lc.spec != nil {
		for i, cl := range lc.spec.Invariants {
			for j, c := range a.evalClauseAt(cl, st, env, nil) {
				o := g.oblige("inv-preserve", fmt.Sprintf("%s:%s:edge%d", lname, clauseLabel(cl, i, j), be), cond, c, p1, cl.Text)
				if o != nil {
					o.splits = cl.Splits
				}
			}
		}
		if len(lc.spec.Decreases) > 0 {
			var oldm, newm []string
			for _, d := range lc.spec.Decreases {
				oldm = append(oldm, a.evalTermAt(d, lc.headState, lc.headEnv))
				newm = append(newm, a.evalTermAt(d, st, env))
			}
			g.oblige("decrease", fmt.Sprintf("%s:edge%d", lname, be), cond, lexDecrease(oldm, newm), p1, "decreases "+clauseTexts(lc.spec.Decreases))
		}
	}
	if a.isMapRangeLoop(lc.header) && (lc.spec == nil || len(lc.spec.Decreases) == 0) {
		// range over a map visits every key once (Go semantics; the map is finite): no measure needed
		g.note("termination of the map range loop in %s is by Go semantics (finite map)", shortFn(a.fn))
	} else if lc.spec == nil || len(lc.spec.Decreases) == 0 {
		// automatic measure for counting loops: bound - counter
		if m, ok := a.autoMeasure(lc); ok {
			oldm := []string{m(lc.headEnv)}
			newm := []string{m(env)}
			g.oblige("decrease", fmt.Sprintf("%s:auto:edge%d", lname, be), cond, lexDecrease(oldm, newm), p1, "automatic measure (bound - counter)")
		} else if len(lc.lexers) == 1 && g.eng.wantTermination {
			// loops that consume a lexer: the unread length decreases
			lv := lc.lexers[0]
			ml := func(st *State) string {
				e := a.newEnv(st, nil, nil)
				c := e.child()
				c.bound["l"] = tv{term: a.val(lv), typ: lv.Type()}
				x, _ := parser.ParseExpr("len(l.Buffer.data)")
				return c.value(c.eval(x)).term
			}
			g.oblige("decrease", fmt.Sprintf("%s:auto-lexer:edge%d", lname, be), cond, lexDecrease([]string{ml(lc.headState)}, []string{ml(st)}), p1, "automatic measure: unread bytes of the lexer decrease")
		} else if g.eng.wantTermination {
			g.oblige("decrease", fmt.Sprintf("%s:missing:edge%d", lname, be), cond, "false", p1, "no decreases clause and no automatic measure")
		}
	}
}

func lexDecrease(oldm, newm []string) string {
	var lex []string
	for i := range oldm {
		var eqs []string
		for j := 0; j < i; j++ {
			eqs = append(eqs, fmt.Sprintf("(= %s %s)", newm[j], oldm[j]))
		}
		eqs = append(eqs, fmt.Sprintf("(< %s %s)", newm[i], oldm[i]), fmt.Sprintf("(>= %s 0)", oldm[i]))
		lex = append(lex, "(and "+strings.Join(eqs, " ")+")")
	}
	if len(lex) == 1 {
		return lex[0]
	}
	return "(or " + strings.Join(lex, " ") + ")"
}

// autoMeasure: the loop header (or its single successor test) ends in `if counter < bound` with counter an auto-invariant phi
// (or phi+const) and bound defined outside the loop: measure = bound - counter.
func (a *Act) autoMeasure(lc *loopCtx) (func(env map[ssa.Value]string) string, bool) {
	h := lc.header
	iff, ok := h.Instrs[len(h.Instrs)-1].(*ssa.If)
	if !ok {
		return nil, false
	}
	bo, ok := iff.Cond.(*ssa.BinOp)
	if !ok {
		return nil, false
	}
	inLoop := func(v ssa.Value) bool {
		in, ok := v.(ssa.Instruction)
		if !ok || in.Block() == nil {
			return false
		}
		for _, hh := range a.loopOf[in.Block()] {
			if hh == h {
				return true
			}
		}
		return false
	}
	// counter expression: phi or phi + const, evaluated under a phi environment
	counter := func(v ssa.Value) (func(env map[ssa.Value]string) string, int, bool) {
		if phi, ok := v.(*ssa.Phi); ok && phi.Block() == h {
			for _, ai := range lc.auto {
				if ai.phi == phi {
					s := 1
					if ai.rel == "<=" {
						s = -1
					}
					return func(env map[ssa.Value]string) string { return env[phi] }, s, true
				}
			}
		}
		if b2, ok := v.(*ssa.BinOp); ok && b2.Op == token.ADD {
			if phi, ok := b2.X.(*ssa.Phi); ok && phi.Block() == h {
				if k, ok := constInt(b2.Y); ok {
					for _, ai := range lc.auto {
						if ai.phi == phi && ai.rel == ">=" {
							return func(env map[ssa.Value]string) string { return fmt.Sprintf("(+ %s %s)", env[phi], bigTerm(k)) }, 1, true
						}
					}
				}
			}
		}
		return nil, 0, false
	}
	loopInvariant := func(v ssa.Value) bool {
		if !inLoop(v) {
			return true
		}
		// len/cap of a value defined outside the loop is loop-invariant (SSA values are immutable)
		if c, ok := v.(*ssa.Call); ok {
			if b, ok := c.Call.Value.(*ssa.Builtin); ok && (b.Name() == "len" || b.Name() == "cap") && !inLoop(c.Call.Args[0]) {
				if _, isMap := c.Call.Args[0].Type().Underlying().(*types.Map); !isMap {
					return true
				}
			}
		}
		return false
	}
	switch bo.Op {
	case token.LSS, token.LEQ:
		if c, s, ok := counter(bo.X); ok && s > 0 && loopInvariant(bo.Y) {
			bound := a.val(bo.Y)
			return func(env map[ssa.Value]string) string { return fmt.Sprintf("(+ 1 (- %s %s))", bound, c(env)) }, true
		}
	case token.GTR, token.GEQ:
		if c, s, ok := counter(bo.X); ok && s < 0 && loopInvariant(bo.Y) {
			bound := a.val(bo.Y)
			return func(env map[ssa.Value]string) string { return fmt.Sprintf("(+ 1 (- %s %s))", c(env), bound) }, true
		}
	}
	return nil, false
}

func sortedKeys(m map[string]int) []string {
	var ks []string
	for k := range m {
		ks = append(ks, k)
	}
	sort.Strings(ks)
	return ks
}

func shortFn(fn *ssa.Function) string { return shortName(fn.String()) }

// shortName strips import path prefixes: "(*github.com/x/y/pkg.T).M" -> "(*pkg.T).M"
func shortName(s string) string {
	var sb strings.Builder
	i := 0
	for i < len(s) {
		// find a path-like run: letters, digits, '.', '-', '_', '/' containing '/'
		j := i
		for j < len(s) && (isIdentChar(s[j]) || s[j] == '/' || s[j] == '.' || s[j] == '-') {
			j++
		}
		if j > i {
			run := s[i:j]
			if k := strings.LastIndex(run, "/"); k >= 0 {
				run = run[k+1:]
			}
			sb.WriteString(run)
			i = j
		} else {
			sb.WriteByte(s[i])
			i++
		}
	}
	return sb.String()
}

func isIdentChar(c byte) bool {
	return c >= 'a' && c <= 'z' || c >= 'A' && c <= 'Z' || c >= '0' && c <= '9' || c == '_'
}

// fireCuts: after the last instruction of a source line that a cut of the contract is anchored on, the cut's
// expression becomes an obligation and then an assumption.
func (a *Act) fireCuts(b *ssa.BasicBlock, ii int, st *State, reach string) {
	g := a.g
	instr := b.Instrs[ii]
	if !instr.Pos().IsValid() {
		return
	}
	line := g.eng.sourceLine(a.pos(instr.Pos()))
	if line == "" {
		return
	}
	// last instruction of that line in this block?
	for j := ii + 1; j < len(b.Instrs); j++ {
		nx := b.Instrs[j]
		if nx.Pos().IsValid() && g.eng.sourceLine(a.pos(nx.Pos())) == line {
			return
		}
	}
	for _, c := range a.ct.Cuts {
		anchor := c.Anchor
		ord := 0
		if i := strings.LastIndex(anchor, "#"); i > 0 {
			// `text`#k: the k-th line of the function with that text
			if k, err := strconv.Atoi(anchor[i+1:]); err == nil {
				anchor, ord = strings.TrimSpace(anchor[:i]), k
			}
		}
		if len(anchor) > 70 {
			anchor = anchor[:70] // source lines are compared in the truncated form used in obligation names
		}
		if anchor != line || a.firedCuts[c] {
			continue
		}
		if ord > 0 {
			p := a.pos(instr.Pos())
			first := a.pos(a.fn.Pos())
			n := 0
			for ln := first.Line; ln <= p.Line; ln++ {
				q := p
				q.Line = ln
				if g.eng.sourceLine(q) == line {
					n++
				}
			}
			if n != ord {
				continue
			}
		}
		a.fireCut(c, instr, st, reach)
	}
}

// fireNamedCuts: cuts whose anchor is one of the given names (call anchors)
func (a *Act) fireNamedCuts(names []string, instr ssa.Instruction, st *State, reach string) {
	if a.firedCuts == nil {
		a.firedCuts = map[*Cut]bool{}
	}
	for _, c := range a.ct.Cuts {
		if a.firedCuts[c] {
			continue
		}
		for _, n := range names {
			if c.Anchor == n {
				a.fireCut(c, instr, st, reach)
				break
			}
		}
	}
}

// fireCut: the cut c takes effect after instr
func (a *Act) fireCut(c *Cut, instr ssa.Instruction, st *State, reach string) {
	g := a.g
	for once := true; once; once = false {
		if c.Let != "" {
			func() {
				defer wrapClauseErr(c.Cl)
				e := a.newEnv(st, nil, nil)
				if a.lets == nil {
					a.lets = map[string]tv{}
				}
				v := e.value(e.eval(c.Cl.Expr))
				if v.typ != nil && !v.spec && !v.smap {
					v.term = g.def(a.nm("ghost_"+c.Let), g.sortOf(v.typ), v.term)
				}
				a.lets[c.Let] = v
			}()
			a.firedCuts[c] = true
			break
		}
		if c.Use {
			if g.eng.curModes.Post {
				a.applyLemma(c.Cl, st, nil, reach)
			}
			a.firedCuts[c] = true
			break
		}
		if g.eng.curModes.Post || (a.ct != nil && len(a.ct.Loops) > 0) {
			// (also outside post mode when the contract has loop invariants: they are obligations in every mode and may
			// need the step)
			terms := a.evalClauseAt(c.Cl, st, nil, nil)
			for j, t := range terms {
				g.oblige("cut", fmt.Sprintf("%s:%s", clauseLabel(c.Cl, 0, j), a.srcDetail(instr)), reach, t, a.pos(instr.Pos()), "assert "+c.Cl.Text)
				g.assumeIf(reach, t)
			}
			if c.Hard {
				// what follows is proved from the facts established at entry and from this assertion: the state is
				// forgotten like at a loop head (memory that existed at entry and is outside the modifies set is unchanged,
				// everything else is arbitrary) and the assertion is assumed for the new state. Dropping knowledge is sound;
				// it keeps the queries of long straight-line functions small.
				g.seq++
				g.cutSeq = g.seq
				old := st.clone()
				st.Next = g.havoc(a.nm("cut_next"), "Int")
				g.assumeIf(reach, fmt.Sprintf("(>= %s %s)", st.Next, old.Next))
				// (what was known about old.Next is forgotten with everything else: the allocation counter never decreases)
				g.assumeIf(reach, fmt.Sprintf("(>= %s %s)", st.Next, g.entry.Next))
				for _, k := range heapKinds {
					if g.modAll {
						st.H[k] = g.havoc(a.nm("cut_H"+k), heapSort[k])
						continue
					}
					st.H[k] = g.framedHeapK(a.nm("cut"), k, g.entry.H[k], g.entry.Next, g.modRefs, g.modKindsOnly, true)
				}
				g.ghostForget(old, st, reach)
				if g.trackLocks {
					st.H["G"] = g.def("HG", heapSort["G"], sto(st.H["G"], ghostLockRef, "0", g.locksNow(old)))
				}
				if g.trackEsc {
					st.H["G"] = g.def("HG", heapSort["G"], sto(st.H["G"], ghostEscRef, "0", g.escNow(old)))
				}
				for _, t := range a.evalClauseAt(c.Cl, st, nil, nil) {
					g.assumeIf(reach, t)
				}
			}
		}
		a.firedCuts[c] = true
	}
}
