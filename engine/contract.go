package main

import (
	"fmt"
	"go/ast"
	"go/parser"
	"go/token"
	"os"
	"path/filepath"
	"regexp"
	"strconv"
	"strings"
)

// Contract syntax (comment-only, in /repo/<pkg>/verif_contracts.go behind the build tag, or /verif/engine/extern/*.contracts):
//
//   //@ contract <key>                 key: Func | (*T).Method | (T).Method | Func$1 ; qualified with the package name automatically
//   //@   requires[label] <expr>
//   //@   ensures[label] <expr>
//   //@   modifies <expr>, <expr>      refs that may be written besides fresh memory ; "modifies *" = anything
//   //@   decreases <expr>, <expr>     for recursion
//   //@   let <name> = <expr>          evaluated in the entry state, visible in ensures / invariants
//   //@   loop <k> invariant[label] <expr>
//   //@   loop <k> decreases <expr>, <expr>
//   //@   split <expr>                 case split for the preceding invariant
//   //@   trusted | inline | pure
//   //@   param <name>                 names for parameters when the function has unnamed ones (rare)
//
// Expressions are Go expressions plus  ==>  <==>  (forall x T :: {trigger} e)  (exists x T :: e)  old(e)  result  has(m,k) fresh(x) ...

type Clause struct {
	Label  string
	Text   string
	Expr   ast.Expr
	Where  string
	Splits []string
	SplitExprs []ast.Expr
}

type LoopSpec struct {
	Invariants []*Clause
	Decreases  []*Clause
	Lets       []*Clause // "loop k let name = expr": value on entry to the loop (before its first iteration)
}

// Macro: a named heap-dependent predicate/term expanded at evaluation time:  //@ define name(a, b) = expr
type Macro struct {
	Name    string
	Params  []string
	Body    *Clause
	PkgPath string
}

var macroRe = regexp.MustCompile(`^define\s+([A-Za-z_][A-Za-z0-9_]*)\s*\(([^)]*)\)\s*=\s*(.*)$`)

type Contract struct {
	Key        string
	PkgName    string
	PkgPath    string
	Requires   []*Clause
	Ensures    []*Clause
	Modifies   []*Clause
	ModifiesAll bool
	Decreases  []*Clause
	Lets       []*Clause // Label = name
	Loops      map[int]*LoopSpec
	Trusted    bool
	ModifiesRecvSlices bool // default contract: also the backing arrays of slices stored in the receiver object
	Default    bool // synthesized default contract of an uncontracted function with loops
	Retains    []string // parameters (byte slices) the function keeps references into: callers must pass memory they own
	NoAlloc    bool // nothing allocated by a call is reachable afterwards: the allocation counter is unchanged for the caller
	NoAllocWhen *Clause // the same, on the returns where this condition over the results holds
	Inline     bool
	Where      string
	ResultNames []string
	Uses       []*Clause // lemma instantiations: "use lemmaName(args)" evaluated at entry
	CallSites  []*CallSite // callsite F assert[label] expr: obligation at every call of F made by this function, over arg0, arg1, ...
	Cuts       []*Cut    // intermediate assertions anchored on a source statement: after "<stmt text>" assert[label] expr
	Inlines    map[string]int // callees whose real bodies are executed in place while this function is verified (value: how often their loops are unrolled)
	FnType     bool      // "contract type T": contract of every value of the named function type T that is not a known function (self = the value)
	FnParamOf, FnParam string // "contract fnparam F.p": function key and parameter name
	UnrollAll  int       // "unroll n": loops of this function are unrolled n times when its body is executed in place
}

// CallSite: an obligation on what this function hands to a callee, at every call of it (arg0 is the receiver of a
// method). Unlike a cut it is not anchored on source text: it is there whenever the call is.
type CallSite struct {
	Fn string
	Cl *Clause
}

// Cut: an intermediate assertion. It is an obligation where it stands and an assumption for what follows (the usual
// role of an assert statement), placed after the last instruction of the source line whose trimmed text is Anchor.
type Cut struct {
	Anchor string
	AnchorWas string // the anchor as written, when it was re-placed on a resembling line (rename.go)
	Cl     *Clause
	Hard   bool // "cut" instead of "assert": what follows is proved from the entry facts and this assertion only
	Use    bool // "use": a lemma instantiation at this point (its requires are obligations, its ensures assumptions)
	Let    string // "let NAME = expr": ghost snapshot of a value at this point
	Claim  bool   // "claim": an assertion that carries part of the property (not just a proof step): if it cannot be placed
	// (its anchor is gone and no line of the function resembles it) that is reported, not skipped
}

func (c *Contract) ModifiesNothing() bool { return len(c.Modifies) == 0 && !c.ModifiesAll }

func clauseLabel(cl *Clause, i, j int) string {
	l := cl.Label
	if l == "" {
		l = fmt.Sprintf("%d", i)
		t := strings.Join(strings.Fields(cl.Text), " ")
		if len(t) > 48 {
			t = t[:48]
		}
		l = l + ":" + t
	}
	if j > 0 {
		l += fmt.Sprintf(".%d", j)
	}
	return l
}

func clauseTexts(cs []*Clause) string {
	var ts []string
	for _, c := range cs {
		ts = append(ts, c.Text)
	}
	return strings.Join(ts, ", ")
}

var clauseRe = regexp.MustCompile(`^(requires|ensures|invariant|modifies|decreases|let|loop|split|trusted|inlines|inline|unroll|pure|noalloc|retains|use|results|after|callsite)\b(\[[^\]]*\])?\s*(.*)$`)
var callsiteRe = regexp.MustCompile(`^(\S+)\s+assert(\[[^\]]*\])?\s+(.*)$`)
var afterRe = regexp.MustCompile("^`([^`]*)`\\s+(assert|claim|cut|use|let)(\\[[^\\]]*\\])?\\s+(.*)$")

// parseContractFile reads //@ blocks from a file. pkgName qualifies unqualified keys.
var macros = map[string]*Macro{} // key: pkgPath + "." + name

func parseContractFile(path, pkgName, pkgPath string) ([]*Contract, error) {
	var pendingMacro *Macro
	data, err := os.ReadFile(path)
	if err != nil {
		return nil, err
	}
	var out []*Contract
	var cur *Contract
	var last *Clause
	var lastList *[]*Clause
	lines := strings.Split(string(data), "\n")
	for ln, raw := range lines {
		t := strings.TrimSpace(raw)
		if strings.HasPrefix(t, "// @") { // gofmt rewrites //@ in doc comments
			t = "//@" + t[4:]
		}
		if !strings.HasPrefix(t, "//@") {
			if cur != nil && t != "" && !strings.HasPrefix(t, "//") {
				cur = nil
				last = nil
			}
			continue
		}
		body := strings.TrimSpace(t[3:])
		where := fmt.Sprintf("%s:%d", filepath.Base(path), ln+1)
		if m := macroRe.FindStringSubmatch(body); m != nil {
			mc := &Macro{Name: m[1], PkgPath: pkgPath, Body: &Clause{Text: m[3], Where: where}}
			for _, p := range strings.Split(m[2], ",") {
				if p = strings.TrimSpace(p); p != "" {
					mc.Params = append(mc.Params, p)
				}
			}
			macros[pkgPath+"."+mc.Name] = mc
			pendingMacro = mc
			cur = nil
			last = mc.Body
			continue
		}
		if strings.HasPrefix(body, "contract ") {
			pendingMacro = nil
			key := strings.TrimSpace(body[len("contract "):])
			fnType := false
			fnParam := ""
			if strings.HasPrefix(key, "type ") {
				fnType = true
				key = strings.TrimSpace(key[len("type "):])
			}
			if strings.HasPrefix(key, "fnresult ") {
				// contract fnresult F.r : what the function value returned as result r of F does when it is called; the
				// parameters of F (values at that call) may be named in it
				f := strings.Fields(key)
				if len(f) == 2 {
					if i := strings.LastIndex(f[1], "."); i > 0 {
						fnParam = "result:" + f[1][i+1:]
						key = f[1][:i]
						fnType = true
					}
				}
			}
			if strings.HasPrefix(key, "fnparam ") {
				// contract fnparam F.p : what the function value passed for parameter p of F is assumed to do when F calls it
				f := strings.Fields(key)
				if len(f) == 2 {
					if i := strings.LastIndex(f[1], "."); i > 0 {
						fnParam = f[1][i+1:]
						key = f[1][:i]
						fnType = true
					}
				}
			}
			cur = &Contract{Key: qualifyKey(key, pkgName), PkgName: pkgName, PkgPath: pkgPath, Loops: map[int]*LoopSpec{}, Where: where, FnType: fnType}
			if fnType && fnParam == "" {
				cur.Key = "type " + cur.Key
			}
			if strings.HasPrefix(fnParam, "result:") {
				cur.FnParamOf = cur.Key
				cur.FnParam = fnParam
				cur.Key = "fnresult " + cur.Key + "." + fnParam[len("result:"):]
			} else if fnParam != "" {
				cur.FnParamOf = cur.Key
				cur.FnParam = fnParam
				cur.Key = "fnparam " + cur.Key + "." + fnParam
			}
			out = append(out, cur)
			last = nil
			continue
		}
		if body == "" {
			continue
		}
		if cur == nil {
			if pendingMacro != nil && last != nil && clauseRe.FindStringSubmatch(body) == nil {
				last.Text += " " + body
			}
			continue
		}
		m := clauseRe.FindStringSubmatch(body)
		if m == nil {
			// continuation of the previous clause
			if last == nil {
				return nil, fmt.Errorf("%s: continuation without clause: %s", where, body)
			}
			last.Text += " " + body
			continue
		}
		kw, label, rest := m[1], strings.Trim(m[2], "[]"), m[3]
		mk := func() *Clause { c := &Clause{Label: label, Text: rest, Where: where}; last = c; return c }
		switch kw {
		case "requires":
			cur.Requires = append(cur.Requires, mk())
			lastList = &cur.Requires
		case "ensures":
			cur.Ensures = append(cur.Ensures, mk())
		case "modifies":
			if strings.TrimSpace(rest) == "*" {
				cur.ModifiesAll = true
				last = nil
			} else {
				cur.Modifies = append(cur.Modifies, mk())
			}
		case "decreases":
			cur.Decreases = append(cur.Decreases, mk())
		case "use":
			cur.Uses = append(cur.Uses, mk())
		case "after":
			am := afterRe.FindStringSubmatch(strings.TrimSpace(rest))
			if am == nil {
				return nil, fmt.Errorf("%s: after `<statement text>` assert[label] <expr>", where)
			}
			c := &Clause{Label: strings.Trim(am[3], "[]"), Text: am[4], Where: where}
			last = c
			ct := &Cut{Anchor: strings.TrimSpace(am[1]), Cl: c, Hard: am[2] == "cut", Use: am[2] == "use", Claim: am[2] == "claim"}
			if am[2] == "let" {
				i := strings.Index(c.Text, "=")
				if i < 0 {
					return nil, fmt.Errorf("%s: after ... let needs name = expr", where)
				}
				ct.Let = strings.TrimSpace(c.Text[:i])
				c.Text = strings.TrimSpace(c.Text[i+1:])
			}
			cur.Cuts = append(cur.Cuts, ct)
		case "let":
			i := strings.Index(rest, "=")
			if i < 0 {
				return nil, fmt.Errorf("%s: let needs name = expr", where)
			}
			c := &Clause{Label: strings.TrimSpace(rest[:i]), Text: strings.TrimSpace(rest[i+1:]), Where: where}
			last = c
			cur.Lets = append(cur.Lets, c)
		case "results":
			cur.ResultNames = strings.Fields(strings.ReplaceAll(rest, ",", " "))
			last = nil
		case "loop":
			f := strings.Fields(rest)
			if len(f) < 2 {
				return nil, fmt.Errorf("%s: loop <k> invariant|decreases <expr>", where)
			}
			k, err := strconv.Atoi(f[0])
			if err != nil {
				return nil, fmt.Errorf("%s: loop index: %v", where, err)
			}
			ls := cur.Loops[k]
			if ls == nil {
				ls = &LoopSpec{}
				cur.Loops[k] = ls
			}
			sub := strings.TrimSpace(rest[len(f[0]):])
			m2 := clauseRe.FindStringSubmatch(sub)
			if m2 == nil {
				return nil, fmt.Errorf("%s: bad loop clause %q", where, sub)
			}
			c := &Clause{Label: strings.Trim(m2[2], "[]"), Text: m2[3], Where: where}
			last = c
			switch m2[1] {
			case "invariant":
				ls.Invariants = append(ls.Invariants, c)
			case "decreases":
				ls.Decreases = append(ls.Decreases, c)
			case "let":
				i := strings.Index(c.Text, "=")
				if i < 0 {
					return nil, fmt.Errorf("%s: loop let needs name = expr", where)
				}
				c.Label = strings.TrimSpace(c.Text[:i])
				c.Text = strings.TrimSpace(c.Text[i+1:])
				ls.Lets = append(ls.Lets, c)
			default:
				return nil, fmt.Errorf("%s: bad loop clause kind %q", where, m2[1])
			}
		case "invariant":
			return nil, fmt.Errorf("%s: invariant must be prefixed with loop <k>", where)
		case "split":
			if last == nil {
				return nil, fmt.Errorf("%s: split without clause", where)
			}
			last.Splits = append(last.Splits, rest)
			last = &Clause{Text: "", Where: where} // continuation lines after split are not supported
			last = nil
		case "callsite":
			m2 := callsiteRe.FindStringSubmatch(strings.TrimSpace(rest))
			if m2 == nil {
				return nil, fmt.Errorf("%s: callsite <function> assert[label] <expr>", where)
			}
			c := &Clause{Label: strings.Trim(m2[2], "[]"), Text: m2[3], Where: where}
			last = c
			cur.CallSites = append(cur.CallSites, &CallSite{Fn: qualifyKey(m2[1], pkgName), Cl: c})
		case "inlines":
			// inlines F, G unroll 6, H : the bodies of these callees are executed in place (loops of G unrolled 6 times, with an
			// unwinding obligation), instead of being used through their contracts
			if cur.Inlines == nil {
				cur.Inlines = map[string]int{}
			}
			for _, item := range strings.Split(rest, ",") {
				f := strings.Fields(item)
				if len(f) == 0 {
					continue
				}
				n := 0
				if len(f) == 3 && f[1] == "unroll" {
					n, _ = strconv.Atoi(f[2])
				}
				cur.Inlines[qualifyKey(f[0], pkgName)] = n
			}
			last = nil
		case "unroll":
			// unroll n: the loops of this function are executed n times in place (with an unwinding obligation) instead of
			// being cut by invariants
			cur.UnrollAll, _ = strconv.Atoi(strings.TrimSpace(rest))
			last = nil
		case "trusted":
			cur.Trusted = true
		case "inline":
			cur.Inline = true
		case "noalloc":
			// noalloc            : the function allocates nothing (checked at its returns); callers keep the same heap
			// noalloc when <e>   : ... on the returns where e holds (e over the results), e.g. "noalloc when err == nil"
			if r := strings.TrimSpace(rest); strings.HasPrefix(r, "when ") {
				c := &Clause{Label: "noalloc", Text: strings.TrimSpace(r[5:]), Where: where}
				last = c
				cur.NoAllocWhen = c
			} else {
				cur.NoAlloc = true
			}
		case "retains":
			cur.Retains = append(cur.Retains, strings.Fields(strings.ReplaceAll(rest, ",", " "))...)
			last = nil
		case "pure":
		}
		_ = lastList
	}
	_ = pendingMacro
	for _, mc := range macros {
		if mc.Body.Expr == nil {
			if err := mc.Body.parse(); err != nil {
				return nil, fmt.Errorf("%s (define %s): %v", mc.Body.Where, mc.Name, err)
			}
		}
	}
	// parse expressions
	for _, c := range out {
		all := [][]*Clause{c.Requires, c.Ensures, c.Modifies, c.Decreases, c.Lets, c.Uses}
		if c.NoAllocWhen != nil {
			all = append(all, []*Clause{c.NoAllocWhen})
		}
		for _, ls := range c.Loops {
			all = append(all, ls.Invariants, ls.Decreases, ls.Lets)
		}
		for _, ct := range c.Cuts {
			all = append(all, []*Clause{ct.Cl})
		}
		for _, cs := range c.CallSites {
			all = append(all, []*Clause{cs.Cl})
		}
		for _, list := range all {
			for _, cl := range list {
				if err := cl.parse(); err != nil {
					return nil, fmt.Errorf("%s (contract %s): %v", cl.Where, c.Key, err)
				}
			}
		}
		// decreases a, b : split into separate clauses
		c.Decreases = splitCommaClauses(c.Decreases)
		c.Modifies = splitCommaClauses(c.Modifies)
		for _, ls := range c.Loops {
			ls.Decreases = splitCommaClauses(ls.Decreases)
		}
	}
	return out, nil
}

func splitCommaClauses(cs []*Clause) []*Clause {
	var out []*Clause
	for _, c := range cs {
		parts := splitTop(c.Text, ",")
		if len(parts) == 1 || c.Expr != nil {
			out = append(out, c)
			continue
		}
		for _, p := range parts {
			nc := &Clause{Label: c.Label, Text: strings.TrimSpace(p), Where: c.Where}
			if err := nc.parse(); err != nil {
				panic(fmt.Sprintf("%s: %v", c.Where, err))
			}
			out = append(out, nc)
		}
	}
	return out
}

func (cl *Clause) parse() error {
	src, err := preprocess(cl.Text)
	if err != nil {
		return err
	}
	e, err := parser.ParseExpr(src)
	if err != nil {
		// may be a comma list (decreases/modifies): parsed after splitting
		if parts := splitTop(cl.Text, ","); len(parts) > 1 {
			return nil
		}
		return fmt.Errorf("cannot parse %q (as %q): %v", cl.Text, src, err)
	}
	cl.Expr = e
	for _, s := range cl.Splits {
		ps, err := preprocess(s)
		if err != nil {
			return err
		}
		se, err := parser.ParseExpr(ps)
		if err != nil {
			return fmt.Errorf("cannot parse split %q: %v", s, err)
		}
		cl.SplitExprs = append(cl.SplitExprs, se)
	}
	return nil
}

func qualifyKey(key, pkg string) string {
	if pkg == "" {
		return key
	}
	// already qualified?  pkg.Func / (*pkg.T).M / pkg.Iface.Method
	if strings.HasPrefix(key, "(") {
		inner := key[1:strings.Index(key, ")")]
		star := ""
		if strings.HasPrefix(inner, "*") {
			star = "*"
			inner = inner[1:]
		}
		if strings.Contains(inner, ".") {
			return key
		}
		return "(" + star + pkg + "." + inner + ")" + key[strings.Index(key, ")")+1:]
	}
	if strings.Contains(key, ".") {
		// Func.Method (interface method) or pkg.Func : treat "X.Y" with known package prefix as qualified
		first := key[:strings.Index(key, ".")]
		if first == pkg || isLower(first) && !strings.Contains(key, "$") {
			return key
		}
		return pkg + "." + key
	}
	return pkg + "." + key
}

func isLower(s string) bool { return s != "" && s[0] >= 'a' && s[0] <= 'z' }

// ---------- preprocessing of the expression extensions into parseable Go ----------

// splitTop splits s at top-level occurrences of sep (outside (), [], {}, "", '').
func splitTop(s, sep string) []string {
	var parts []string
	depth := 0
	start := 0
	i := 0
	for i < len(s) {
		c := s[i]
		switch c {
		case '(', '[', '{':
			depth++
		case ')', ']', '}':
			depth--
		case '"':
			i++
			for i < len(s) && s[i] != '"' {
				if s[i] == '\\' {
					i++
				}
				i++
			}
		case '\'':
			i++
			for i < len(s) && s[i] != '\'' {
				if s[i] == '\\' {
					i++
				}
				i++
			}
		}
		if depth == 0 && strings.HasPrefix(s[i:], sep) {
			// do not split "<==>" when looking for "==>"
			if sep == "==>" && i > 0 && s[i-1] == '<' {
				i++
				continue
			}
			parts = append(parts, s[start:i])
			i += len(sep)
			start = i
			continue
		}
		i++
	}
	parts = append(parts, s[start:])
	return parts
}

func preprocess(s string) (string, error) {
	s = strings.TrimSpace(s)
	// quantifier at this level
	for _, q := range []string{"forall", "exists"} {
		if strings.HasPrefix(s, q+" ") {
			rest := s[len(q)+1:]
			i := strings.Index(rest, "::")
			if i < 0 {
				return "", fmt.Errorf("quantifier without '::' in %q", s)
			}
			decl := strings.TrimSpace(rest[:i])
			body := strings.TrimSpace(rest[i+2:])
			trig := ""
			for strings.HasPrefix(body, "{") {
				j := matchClose(body, 0)
				if j < 0 {
					return "", fmt.Errorf("unbalanced trigger in %q", s)
				}
				tparts := splitTop(body[1:j], ",")
				var ps []string
				for _, tp := range tparts {
					pt, err := preprocess(tp)
					if err != nil {
						return "", err
					}
					ps = append(ps, pt)
				}
				trig += ", __pat(" + strings.Join(ps, ", ") + ")"
				body = strings.TrimSpace(body[j+1:])
			}
			pb, err := preprocess(body)
			if err != nil {
				return "", err
			}
			// decl: "i int" or "i, j int"
			return fmt.Sprintf("__%s(func(%s) bool { return %s }%s)", q, decl, pb, trig), nil
		}
	}
	if parts := splitTop(s, "<==>"); len(parts) > 1 {
		if len(parts) != 2 {
			return "", fmt.Errorf("chained <==> in %q", s)
		}
		l, err := preprocess(parts[0])
		if err != nil {
			return "", err
		}
		r, err := preprocess(parts[1])
		if err != nil {
			return "", err
		}
		return fmt.Sprintf("__iff(%s, %s)", l, r), nil
	}
	if parts := splitTop(s, "==>"); len(parts) > 1 {
		// right associative
		r, err := preprocess(parts[len(parts)-1])
		if err != nil {
			return "", err
		}
		for i := len(parts) - 2; i >= 0; i-- {
			l, err := preprocess(parts[i])
			if err != nil {
				return "", err
			}
			r = fmt.Sprintf("__implies(%s, %s)", l, r)
		}
		return r, nil
	}
	// no extension operator at top level: descend into bracketed groups
	var sb strings.Builder
	i := 0
	for i < len(s) {
		c := s[i]
		if c == '"' || c == '\'' || c == '`' {
			j := i + 1
			for j < len(s) && s[j] != c {
				if s[j] == '\\' && c != '`' {
					j++
				}
				j++
			}
			if j >= len(s) {
				return "", fmt.Errorf("unterminated literal in %q", s)
			}
			sb.WriteString(s[i : j+1])
			i = j + 1
			continue
		}
		if c == '(' || c == '[' || c == '{' {
			j := matchClose(s, i)
			if j < 0 {
				return "", fmt.Errorf("unbalanced %q in %q", string(c), s)
			}
			inner := s[i+1 : j]
			var outs []string
			groups := splitTop(inner, ",")
			if ti := strings.TrimSpace(inner); c == '(' && (strings.HasPrefix(ti, "forall ") || strings.HasPrefix(ti, "exists ")) {
				// a parenthesised quantifier: its variable list may contain commas
				groups = []string{inner}
			}
			for _, p := range groups {
				if strings.TrimSpace(p) == "" {
					outs = append(outs, p)
					continue
				}
				// slices a[x:y]: split on top-level ':' handled by leaving ':' intact (preprocess keeps text)
				pp, err := preprocessColon(p)
				if err != nil {
					return "", err
				}
				outs = append(outs, pp)
			}
			sb.WriteByte(c)
			sb.WriteString(strings.Join(outs, ","))
			sb.WriteByte(s[j])
			i = j + 1
			continue
		}
		sb.WriteByte(c)
		i++
	}
	return sb.String(), nil
}

// preprocessColon handles slice expressions "lo:hi" inside brackets
func preprocessColon(p string) (string, error) {
	if strings.Contains(p, "::") {
		return preprocess(p)
	}
	parts := splitTop(p, ":")
	if len(parts) == 1 {
		return preprocess(p)
	}
	var outs []string
	for _, q := range parts {
		if strings.TrimSpace(q) == "" {
			outs = append(outs, q)
			continue
		}
		pq, err := preprocess(q)
		if err != nil {
			return "", err
		}
		outs = append(outs, pq)
	}
	return strings.Join(outs, ":"), nil
}

func matchClose(s string, i int) int {
	open := s[i]
	var cl byte
	switch open {
	case '(':
		cl = ')'
	case '[':
		cl = ']'
	case '{':
		cl = '}'
	}
	depth := 0
	for j := i; j < len(s); j++ {
		switch s[j] {
		case '"', '\'':
			q := s[j]
			j++
			for j < len(s) && s[j] != q {
				if s[j] == '\\' {
					j++
				}
				j++
			}
		case open:
			depth++
		case cl:
			depth--
			if depth == 0 {
				return j
			}
		}
	}
	return -1
}

var _ = token.NoPos
