package main

import (
	"fmt"
	"go/ast"
	"go/constant"
	"go/token"
	"go/types"
	"math/big"
	"sort"
	"strings"

	"golang.org/x/tools/go/ssa"
)

// srcDetail: obligation detail = call path + trimmed source line of the instruction (stable under line shifts)
func (a *Act) srcDetail(instr ssa.Instruction) string {
	p := a.pos(instr.Pos())
	line := a.g.eng.sourceLine(p)
	if line == "" {
		line = fmt.Sprintf("%s/b%d", instr.Parent().Name(), instr.Block().Index)
	}
	return a.path + shortFn(a.fn) + ":" + line
}

func shortFile(f string) string {
	if i := strings.LastIndex(f, "/"); i >= 0 {
		return f[i+1:]
	}
	return f
}

func (a *Act) safety(kind string, instr ssa.Instruction, reach, cond, text string) {
	if !a.g.eng.wantSafety {
		return
	}
	a.g.oblige(kind, a.srcDetail(instr), reach, cond, a.pos(instr.Pos()), text)
}

// noAliasOblige: a value that outlives the call (stored, boxed, returned, passed to a retaining callee) must not point
// into one of the function's []byte parameters
func (a *Act) noAliasOblige(instr ssa.Instruction, reach string, t types.Type, v string, what string) {
	g := a.g
	if len(g.inputBufs) == 0 {
		return
	}
	switch u := t.Underlying().(type) {
	case *types.Slice:
		for i, p := range g.inputBufs {
			g.oblige("noalias", a.srcDetail(instr)+":"+g.inputNames[i], reach, fmt.Sprintf("(or (= (sref %s) 0) (= (sref %s) 0) (not (= (sref %s) (sref %s))))", v, p, v, p), a.pos(instr.Pos()), what+" does not keep a reference into parameter "+g.inputNames[i])
		}
	case *types.Struct:
		s := g.sortOf(t)
		for i := 0; i < u.NumFields(); i++ {
			a.noAliasOblige(instr, reach, u.Field(i).Type(), fmt.Sprintf("(%s_f%d %s)", s, i, v), what)
		}
	}
}

// frameOblige: a write to (ref) must target memory allocated during the call or the modifies set.
func (a *Act) frameOblige(instr ssa.Instruction, reach, ref, what string) {
	a.frameObligeR(instr, reach, ref, "", "", what)
}

// frameObligeR: slots [lo,hi) of object ref are written (lo == "": unknown part of the object)
func (a *Act) frameObligeR(instr ssa.Instruction, reach, ref, lo, hi, what string) {
	g := a.g
	if !g.checkFrame {
		return
	}
	cond := fmt.Sprintf("(or (= %s 0) (>= %s %s))", ref, ref, g.entry.Next)
	if g.modset != nil {
		cond = fmt.Sprintf("(or (= %s 0) (>= %s %s) %s)", ref, ref, g.entry.Next, g.modsetR(ref, lo, hi))
	}
	g.oblige("frame", a.srcDetail(instr), reach, cond, a.pos(instr.Pos()), what+" writes only memory allocated during the call or listed in modifies")
}

func (a *Act) bind(v ssa.Value, term string) {
	g := a.g
	if _, ok := v.Type().(*types.Tuple); ok {
		a.env[v] = term
		return
	}
	n := g.def(a.nm(v.Name()), g.sortOf(v.Type()), term)
	a.env[v] = n
}

func (a *Act) bindHavoc(v ssa.Value, reach string, st *State) string {
	g := a.g
	n := g.havoc(a.nm(v.Name()), g.sortOf(v.Type()))
	a.env[v] = n
	g.assumeIf(reach, rangeFact(v.Type(), n))
	if st != nil {
		g.assumeIf(reach, g.heapValWF(v.Type(), n, st))
	}
	return n
}

func (a *Act) exec(instr ssa.Instruction, st *State, reach string, b *ssa.BasicBlock) {
	g := a.g
	switch in := instr.(type) {
	case *ssa.DebugRef:
		if id, ok := in.Expr.(*ast.Ident); ok && !in.IsAddr {
			if ov, isVar := in.Object().(*types.Var); isVar && !(ov.Pkg() != nil && ov.Parent() == ov.Pkg().Scope()) {
				// (package-level variables are resolved through their cells, not through a load on some path)
				if _, bound := a.env[in.X]; bound || isConstLike(in.X) {
					a.dbg[id.Name] = in.X
				}
			}
		}
	case *ssa.MakeMap:
		ref := a.alloc(st, a.nm(in.Name()), objKey(in.Type()))
		a.bind(in, ref)
	case *ssa.MakeChan:
		ref := a.alloc(st, a.nm(in.Name()), objKey(in.Type()))
		a.bind(in, ref)
	case *ssa.MapUpdate:
		m := a.val(in.Map)
		a.safety("nil-map-write", in, reach, fmt.Sprintf("(not (= %s 0))", m), "assignment to entry in nil map")
		a.frameOblige(in, reach, m, "map update")
		mt := in.Map.Type().Underlying().(*types.Map)
		key := a.mapKey(mt.Key(), a.val(in.Key))
		st.H["MD"] = g.def("HMD", heapSort["MD"], sto(st.H["MD"], m, key, "true"))
		if slots(mt.Elem()) == 1 && kindOf(mt.Elem()) != "" {
			k := "M" + kindOf(mt.Elem())
			a.noAliasOblige(in, reach, mt.Elem(), a.val(in.Value), "map update")
			st.H[k] = g.def("H"+k, heapSort[k], sto(st.H[k], m, key, a.val(in.Value)))
		} else {
			g.note("UNSUPPORTED map with multi-slot values %s (values havoced)", mt)
			g.unsupported++
		}
	case *ssa.Alloc:
		var ref string
		if in.Heap && !feedsOnlyErrorValue(in) {
			ref = a.alloc(st, a.nm(in.Name()), objAlloc(in.Type().Underlying().(*types.Pointer).Elem()))
		} else {
			ref = a.allocLocal(st, a.nm(in.Name()), objAlloc(in.Type().Underlying().(*types.Pointer).Elem()))
		}
		a.bind(in, fmt.Sprintf("(mkPtr %s 0)", ref))
	case *ssa.BinOp:
		a.bind(in, a.binop(in, reach))
	case *ssa.UnOp:
		a.unop(in, st, reach)
	case *ssa.Convert:
		a.convert(in, st, reach)
	case *ssa.ChangeType:
		x := a.val(in.X)
		a.bind(in, x)
		// conversions between function types keep the identity of a known function / closure
		if f := g.eng.funcByTerm[x]; f != nil {
			g.eng.funcByTerm[a.env[in]] = f
		}
		if ci := g.closures[x]; ci != nil {
			g.closures[a.env[in]] = ci
		}
	case *ssa.ChangeInterface:
		a.bind(in, a.val(in.X))
	case *ssa.MakeInterface:
		a.noAliasOblige(in, reach, in.X.Type(), a.val(in.X), "interface value")
		a.bind(in, a.makeIface(in.X.Type(), a.val(in.X), st, a.nm(in.Name())))
	case *ssa.MakeClosure:
		fn := in.Fn.(*ssa.Function)
		var bs []string
		for _, b := range in.Bindings {
			bs = append(bs, a.val(b))
		}
		cid := g.eng.closureID()
		n := g.def(a.nm(in.Name()), "Iface", fmt.Sprintf("(mkIface %d (bOpaque %d))", g.tag(in.Type()), cid))
		a.env[in] = n
		g.closures[n] = &closureInfo{fn, bs, cid}
	case *ssa.Extract:
		tup := a.tuples[in.Tuple]
		if tup == nil {
			panic(fmt.Sprintf("extract from unknown tuple %s in %s", in.Tuple.Name(), a.fn))
		}
		a.bind(in, tup[in.Index])
		// identities attached to the tuple component follow it (closures, contracted function results)
		if ci := g.closures[tup[in.Index]]; ci != nil {
			g.closures[a.env[in]] = ci
		}
		if fr := g.fnResults[tup[in.Index]]; fr != nil {
			g.fnResults[a.env[in]] = fr
		}
	case *ssa.Field:
		s := g.sortOf(in.X.Type())
		a.bind(in, fmt.Sprintf("(%s_f%d %s)", s, in.Field, a.val(in.X)))
	case *ssa.FieldAddr:
		p := a.val(in.X)
		a.safety("nil-deref", in, reach, fmt.Sprintf("(not (= (pref %s) 0))", p), "nil pointer dereference (field address)")
		stt := in.X.Type().Underlying().(*types.Pointer).Elem().Underlying().(*types.Struct)
		a.bind(in, fmt.Sprintf("(mkPtr (pref %s) %s)", p, add(fmt.Sprintf("(poff %s)", p), fmt.Sprint(fieldSlot(stt, in.Field)))))
	case *ssa.IndexAddr:
		idx := a.val(in.Index)
		switch xt := in.X.Type().Underlying().(type) {
		case *types.Slice:
			s := a.val(in.X)
			a.safety("bounds", in, reach, fmt.Sprintf("(and (<= 0 %s) (< %s (sllen %s)))", idx, idx, s), "index in range")
			stride := slots(xt.Elem())
			a.bind(in, fmt.Sprintf("(mkPtr (sref %s) (+ (soff %s) %s))", s, s, mulConst(stride, idx)))
		case *types.Pointer:
			arr := xt.Elem().Underlying().(*types.Array)
			p := a.val(in.X)
			a.safety("nil-deref", in, reach, fmt.Sprintf("(not (= (pref %s) 0))", p), "nil pointer dereference (array)")
			a.safety("bounds", in, reach, fmt.Sprintf("(and (<= 0 %s) (< %s %d))", idx, idx, arr.Len()), "index in range")
			a.bind(in, fmt.Sprintf("(mkPtr (pref %s) (+ (poff %s) %s))", p, p, mulConst(slots(arr.Elem()), idx)))
		default:
			panic("IndexAddr on " + in.X.Type().String())
		}
	case *ssa.Index:
		idx := a.val(in.Index)
		switch xt := in.X.Type().Underlying().(type) {
		case *types.Array:
			a.safety("bounds", in, reach, fmt.Sprintf("(and (<= 0 %s) (< %s %d))", idx, idx, xt.Len()), "index in range")
			a.bind(in, fmt.Sprintf("(select %s %s)", a.val(in.X), idx))
		case *types.Basic: // string
			sx := a.val(in.X)
			a.safety("bounds", in, reach, fmt.Sprintf("(and (<= 0 %s) (< %s (slen %s)))", idx, idx, sx), "index in range")
			a.bind(in, fmt.Sprintf("(sat %s %s)", sx, idx))
		default:
			panic("Index on " + in.X.Type().String())
		}
	case *ssa.Lookup:
		if isString(in.X.Type()) {
			idx := a.val(in.Index)
			s := a.val(in.X)
			a.safety("bounds", in, reach, fmt.Sprintf("(and (<= 0 %s) (< %s (slen %s)))", idx, idx, s), "index in range")
			a.bind(in, fmt.Sprintf("(sat %s %s)", s, idx))
		} else if mt, ok := in.X.Type().Underlying().(*types.Map); ok && slots(mt.Elem()) == 1 && kindOf(mt.Elem()) != "" {
			m, key := a.val(in.X), a.mapKey(mt.Key(), a.val(in.Index))
			k := "M" + kindOf(mt.Elem())
			has := sel(st.H["MD"], m, key)
			v := fmt.Sprintf("(ite %s %s %s)", has, sel(st.H[k], m, key), g.zero(mt.Elem()))
			if in.CommaOk {
				vn := g.def(a.nm(in.Name()+"_v"), g.sortOf(mt.Elem()), v)
				a.setTuple(in, []string{vn, g.def(a.nm(in.Name()+"_ok"), "Bool", has)})
				g.assumeIf(reach, g.heapValWF(mt.Elem(), vn, st))
				g.assumeIf(reach, rangeFact(mt.Elem(), vn))
			} else {
				a.bind(in, v)
				g.assumeIf(reach, g.heapValWF(mt.Elem(), a.env[in], st))
				g.assumeIf(reach, rangeFact(mt.Elem(), a.env[in]))
			}
		} else {
			a.unsupported(in, reach, st)
		}
	case *ssa.Slice:
		a.sliceOp(in, st, reach)
	case *ssa.MakeSlice:
		n, c := a.val(in.Len), a.val(in.Cap)
		a.safety("make-neg", in, reach, fmt.Sprintf("(and (<= 0 %s) (<= %s %s))", n, n, c), "makeslice: len/cap out of range")
		ref := a.alloc(st, a.nm(in.Name()), arrAlloc(in.Type().Underlying().(*types.Slice).Elem()))
		a.bind(in, fmt.Sprintf("(mkSlice %s 0 %s %s)", ref, n, c))
	case *ssa.Store:
		p := a.val(in.Addr)
		if _, isAlloc := in.Addr.(*ssa.Alloc); !isAlloc {
			if !derivedAddr(in.Addr) {
				a.safety("nil-deref", in, reach, fmt.Sprintf("(not (= (pref %s) 0))", p), "nil pointer dereference (store)")
			}
			if _, isGlobal := in.Addr.(*ssa.Global); !isGlobal {
				a.frameObligeR(in, reach, fmt.Sprintf("(pref %s)", p), fmt.Sprintf("(poff %s)", p), fmt.Sprintf("(+ (poff %s) %d)", p, slots(in.Val.Type())), "store")
			} else if g.checkFrame {
				g.oblige("frame", a.srcDetail(in), reach, "false", a.pos(in.Pos()), "store to a package-level variable")
			}
		}
		if al, isAlloc := in.Addr.(*ssa.Alloc); !isAlloc || al.Heap {
			a.noAliasOblige(in, reach, in.Val.Type(), a.val(in.Val), "store")
		}
		a.store(st, in.Val.Type(), fmt.Sprintf("(pref %s)", p), fmt.Sprintf("(poff %s)", p), a.val(in.Val))
		if al, isAlloc := in.Addr.(*ssa.Alloc); isAlloc && al.Heap && g.eng.singleAssignmentCell(al) {
			// a captured variable that is only ever initialised: its cell is a constant of this activation (loop heads
			// that forget the heap do not forget it)
			if g.constCell == nil {
				g.constCell = map[string]string{}
			}
			g.constCell[p] = a.val(in.Val)
		}
		if tg := leafTag(in.Val.Type()); tg != 0 {
			if _, isAlloc := in.Addr.(*ssa.Alloc); !isAlloc {
				if _, isField := in.Addr.(*ssa.FieldAddr); isField {
					// a struct field of basic type is never an element of an array of that basic type
					g.assumeIf(reach, fmt.Sprintf("(sfield (pref %s) (poff %s))", p, p))
				}
				g.assumeIf(reach, fmt.Sprintf("(= (styp (pref %s) (poff %s)) %d)", p, p, tg))
			}
		}
	case *ssa.TypeAssert:
		a.typeAssert(in, st, reach)
	case *ssa.Call:
		a.call(in, in.Common(), st, reach)
	case *ssa.If:
		c := a.val(in.Cond)
		a.setEdge(b, b.Succs[0], g.def(a.nm(fmt.Sprintf("e%d_%d", b.Index, b.Succs[0].Index)), "Bool", fmt.Sprintf("(and %s %s)", reach, c)), st)
		a.setEdge(b, b.Succs[1], g.def(a.nm(fmt.Sprintf("e%d_%d", b.Index, b.Succs[1].Index)), "Bool", fmt.Sprintf("(and %s (not %s))", reach, c)), st)
	case *ssa.Jump:
		a.setEdge(b, b.Succs[0], reach, st)
	case *ssa.Return:
		var vs []string
		for _, r := range in.Results {
			vs = append(vs, a.val(r))
		}
		a.rets = append(a.rets, retInfo{reach, vs, st.clone(), in})
		if a.top {
			for i, r := range in.Results {
				a.noAliasOblige(in, reach, r.Type(), vs[i], "result")
			}
			a.checkPost(a.rets[len(a.rets)-1])
		}
	case *ssa.Panic:
		if a.g.eng.wantSafety {
			g.oblige("explicit-panic", a.srcDetail(in), reach, "false", a.pos(in.Pos()), "panic() unreachable")
		}
	case *ssa.RunDefers:
		a.runDefers(in, st, reach)
	case *ssa.Defer:
		var args []string
		for _, x := range in.Call.Args {
			args = append(args, a.val(x))
		}
		if in.Call.IsInvoke() || !isConstLike(in.Call.Value) {
			args = append([]string{a.val(in.Call.Value)}, args...)
		}
		a.defers = append(a.defers, deferRec{in, reach, args})
	case *ssa.Go:
		a.goStmt(in, st, reach)
	case *ssa.Range:
		if mt, ok := in.X.Type().Underlying().(*types.Map); ok {
			// ghost iterator object: its map-domain row is the set of keys visited so far (empty now)
			ref := a.allocLocal(st, a.nm(in.Name()), allocType{key: "obj:rangeiter:" + mt.String(), typ: types.NewMap(mt.Key(), types.NewStruct(nil, nil))})
			a.env[in] = ref
		} else {
			a.env[in] = "RANGE"
		}
	case *ssa.Next:
		a.nextOp(in, st, reach)
	case *ssa.Send:
		a.sendOp(in, st, reach)
	case *ssa.Select:
		a.selectOp(in, st, reach)
	case *ssa.SliceToArrayPointer:
		s := a.val(in.X)
		arr := in.Type().Underlying().(*types.Pointer).Elem().Underlying().(*types.Array)
		a.safety("slice-to-array", in, reach, fmt.Sprintf("(>= (sllen %s) %d)", s, arr.Len()), "slice long enough for array conversion")
		a.bind(in, fmt.Sprintf("(mkPtr (sref %s) (soff %s))", s, s))
	default:
		a.unsupported(instr, reach, st)
	}
}

// feedsOnlyErrorValue: the allocation is the argument list of a call that builds an error value (fmt.Errorf(format,
// args...)). Error values are opaque in the model (no heap footprint), and so is what they are formatted from: a
// noalloc claim means "nothing but error values is allocated".
func feedsOnlyErrorValue(al *ssa.Alloc) bool {
	if al.Referrers() == nil {
		return false
	}
	ok := false
	for _, r := range *al.Referrers() {
		switch x := r.(type) {
		case *ssa.IndexAddr:
			if x.Referrers() != nil {
				for _, r2 := range *x.Referrers() {
					if st, isStore := r2.(*ssa.Store); !isStore || st.Addr != ssa.Value(x) {
						return false
					}
				}
			}
		case *ssa.Slice:
			if x.Referrers() == nil {
				return false
			}
			for _, r2 := range *x.Referrers() {
				c, isCall := r2.(*ssa.Call)
				if !isCall {
					return false
				}
				f, isFn := c.Call.Value.(*ssa.Function)
				if !isFn || (f.String() != "fmt.Errorf" && f.String() != "errors.New") {
					return false
				}
				ok = true
			}
		case *ssa.DebugRef:
		default:
			return false
		}
	}
	return ok
}

// derivedAddr: the address comes from an instruction that already carries its own nil/bounds obligation (or cannot be nil)
func derivedAddr(v ssa.Value) bool {
	switch v.(type) {
	case *ssa.Alloc, *ssa.Global, *ssa.FieldAddr, *ssa.IndexAddr, *ssa.FreeVar:
		return true
	}
	return false
}

func mulConst(k int, t string) string {
	if k == 1 {
		return t
	}
	return fmt.Sprintf("(* %d %s)", k, t)
}

func (a *Act) setEdge(from, to *ssa.BasicBlock, cond string, st *State) {
	if u := a.unr; u != nil && u.in[from] {
		if to == u.header {
			u.backs = append(u.backs, unrEdge{from, cond, st.clone(), 0})
			return
		}
		if !u.in[to] {
			k := [2]int{from.Index, to.Index}
			if _, ok := u.exits[k]; !ok {
				u.exitOrder = append(u.exitOrder, k)
			}
			u.exits[k] = append(u.exits[k], unrEdge{from, cond, st.clone(), u.curIt})
			return
		}
	}
	if isBackEdge(from, to) {
		a.backEdge(from, to, cond, st)
		return
	}
	a.edge[[2]int{from.Index, to.Index}] = cond
}

func (a *Act) unsupported(instr ssa.Instruction, reach string, st *State) {
	g := a.g
	g.note("UNSUPPORTED %T in %s: %s", instr, shortFn(a.fn), instr)
	g.unsupported++
	if v, ok := instr.(ssa.Value); ok {
		a.havocValue(v, reach, st)
	}
}

func (a *Act) havocValue(v ssa.Value, reach string, st *State) {
	g := a.g
	if tup, ok := v.Type().(*types.Tuple); ok {
		var vs []string
		for i := 0; i < tup.Len(); i++ {
			n := g.havoc(a.nm(v.Name()+fmt.Sprintf("_%d", i)), g.sortOf(tup.At(i).Type()))
			g.assumeIf(reach, rangeFact(tup.At(i).Type(), n))
			if st != nil {
				g.assumeIf(reach, g.heapValWF(tup.At(i).Type(), n, st))
			}
			vs = append(vs, n)
		}
		a.setTuple(v, vs)
		return
	}
	a.bindHavoc(v, reach, st)
}

// ---- interfaces ----

func (a *Act) makeIface(t types.Type, v string, st *State, base string) string {
	g := a.g
	tag := g.tag(t)
	switch g.sortOf(t) {
	case "Int":
		return fmt.Sprintf("(mkIface %d (bInt %s))", tag, v)
	case "Bool":
		return fmt.Sprintf("(mkIface %d (bBool %s))", tag, v)
	case "BSeq":
		return fmt.Sprintf("(mkIface %d (bSeq %s))", tag, v)
	case "Slice":
		return fmt.Sprintf("(mkIface %d (bSlice %s))", tag, v)
	case "Ptr":
		return fmt.Sprintf("(mkIface %d (bPtr %s))", tag, v)
	case "Iface":
		return v
	}
	// struct or array value: boxed in a fresh immutable heap cell
	ref := a.alloc(st, base+"_box", objAlloc(t))
	a.store(st, t, ref, "0", v)
	return fmt.Sprintf("(mkIface %d (bPtr (mkPtr %s 0)))", tag, ref)
}

func (a *Act) unboxIface(t types.Type, x string, st *State) string {
	b := fmt.Sprintf("(ibox %s)", x)
	switch a.g.sortOf(t) {
	case "Int":
		return fmt.Sprintf("(ubInt %s)", b)
	case "Bool":
		return fmt.Sprintf("(ubBool %s)", b)
	case "BSeq":
		return fmt.Sprintf("(ubSeq %s)", b)
	case "Slice":
		return fmt.Sprintf("(ubSlice %s)", b)
	case "Ptr":
		return fmt.Sprintf("(ubPtr %s)", b)
	case "Iface":
		return x
	}
	return a.load(st, t, fmt.Sprintf("(pref (ubPtr %s))", b), "0")
}

// boxShape: constructor of the box of an interface value whose dynamic type is t
func (a *Act) boxShape(t types.Type, x string) string {
	b := fmt.Sprintf("(ibox %s)", x)
	switch a.g.sortOf(t) {
	case "Int":
		return fmt.Sprintf("(is-bInt %s)", b)
	case "Bool":
		return fmt.Sprintf("(is-bBool %s)", b)
	case "BSeq":
		return fmt.Sprintf("(is-bSeq %s)", b)
	case "Slice":
		return fmt.Sprintf("(is-bSlice %s)", b)
	case "Ptr":
		return fmt.Sprintf("(is-bPtr %s)", b)
	case "Iface":
		return "true"
	}
	return fmt.Sprintf("(and (is-bPtr %s) (> (pref (ubPtr %s)) 0))", b, b)
}

// implementsTags: tags of all concrete types known to the program that implement the interface
func (a *Act) ifaceSatisfied(x string, it *types.Interface) string {
	g := a.g
	var alts []string
	for _, t := range g.eng.concreteTypes() {
		if types.Implements(t, it) {
			alts = append(alts, fmt.Sprintf("(= (itag %s) %d)", x, g.tag(t)))
		}
	}
	if len(alts) == 0 {
		return "false"
	}
	if len(alts) > 60 {
		return ""
	}
	return "(or " + strings.Join(alts, " ") + ")"
}

func (a *Act) typeAssert(in *ssa.TypeAssert, st *State, reach string) {
	g := a.g
	x := a.val(in.X)
	if it, isIface := in.AssertedType.Underlying().(*types.Interface); isIface {
		okT := a.ifaceSatisfied(x, it)
		if okT == "" || it.NumMethods() == 0 {
			if it.NumMethods() == 0 {
				okT = fmt.Sprintf("(not (= %s nilIface))", x)
			} else {
				okT = g.havoc(a.nm(in.Name()+"_implements"), "Bool")
			}
		} else {
			okT = fmt.Sprintf("(and (not (= %s nilIface)) %s)", x, okT)
		}
		if in.CommaOk {
			a.setTuple(in, []string{g.def(a.nm(in.Name()+"_v"), "Iface", fmt.Sprintf("(ite %s %s nilIface)", okT, x)), g.def(a.nm(in.Name()+"_ok"), "Bool", okT)})
		} else {
			a.safety("assert-type", in, reach, okT, "interface conversion holds: "+in.AssertedType.String())
			a.bind(in, x)
		}
		return
	}
	okT := fmt.Sprintf("(= (itag %s) %d)", x, g.tag(in.AssertedType))
	g.assumeIf(reach, fmt.Sprintf("(=> %s %s)", okT, a.boxShape(in.AssertedType, x)))
	v := a.unboxIface(in.AssertedType, x, st)
	if in.CommaOk {
		vn := g.def(a.nm(in.Name()+"_v"), g.sortOf(in.AssertedType), fmt.Sprintf("(ite %s %s %s)", okT, v, g.zero(in.AssertedType)))
		a.setTuple(in, []string{vn, g.def(a.nm(in.Name()+"_ok"), "Bool", okT)})
		g.assumeIf(reach, g.heapValWF(in.AssertedType, vn, st))
		g.assumeIf(reach, rangeFact(in.AssertedType, vn))
	} else {
		a.safety("assert-type", in, reach, okT, "type assertion holds: "+shortName(in.AssertedType.String()))
		a.bind(in, v)
		g.assumeIf(reach, g.heapValWF(in.AssertedType, a.env[in], st))
		g.assumeIf(reach, rangeFact(in.AssertedType, a.env[in]))
	}
}

// ---- known-bits helper for | of disjoint operands ----

func constInt(v ssa.Value) (*big.Int, bool) {
	c, ok := v.(*ssa.Const)
	if !ok || c.Value == nil || c.Value.Kind() != constant.Int {
		return nil, false
	}
	i, ok2 := new(big.Int).SetString(c.Value.ExactString(), 10)
	return i, ok2
}

// maxBits: v < 2^maxBits (and v >= 0); lowZeros: v multiple of 2^lowZeros
func knownBits(v ssa.Value, depth int) (maxBits int, lowZeros int) {
	bits, signed, ok := intBits(v.Type())
	maxBits = 64
	if ok && !signed {
		maxBits = bits
	}
	if depth > 4 {
		return
	}
	switch x := v.(type) {
	case *ssa.Const:
		if i, ok := constInt(x); ok && i.Sign() >= 0 {
			maxBits = i.BitLen()
			lowZeros = int(i.TrailingZeroBits())
			if i.Sign() == 0 {
				lowZeros = 64
			}
		}
	case *ssa.Convert:
		mb, lz := knownBits(x.X, depth+1)
		if b2, s2, ok2 := intBits(x.X.Type()); ok2 && !s2 && b2 <= maxBits {
			if mb < maxBits {
				maxBits = mb
			}
			lowZeros = lz
		} else if ok2 && !s2 {
			lowZeros = lz
		}
	case *ssa.BinOp:
		if x.Op == token.SHL {
			if k, ok := constInt(x.Y); ok {
				mb, lz := knownBits(x.X, depth+1)
				if mb+int(k.Int64()) < maxBits {
					maxBits = mb + int(k.Int64())
				}
				lowZeros = lz + int(k.Int64())
			}
		}
		if x.Op == token.AND {
			if k, ok := constInt(x.Y); ok && k.Sign() >= 0 && k.BitLen() < maxBits {
				maxBits = k.BitLen()
			}
		}
		if x.Op == token.OR || x.Op == token.XOR || x.Op == token.ADD {
			mx, lx := knownBits(x.X, depth+1)
			my, ly := knownBits(x.Y, depth+1)
			m := mx
			if my > m {
				m = my
			}
			if x.Op == token.ADD && !(mx <= ly || my <= lx) {
				m++
			}
			if m < maxBits {
				maxBits = m
			}
			lowZeros = lx
			if ly < lx {
				lowZeros = ly
			}
		}
		if x.Op == token.SHR {
			if k, ok := constInt(x.Y); ok {
				mb, _ := knownBits(x.X, depth+1)
				if mb-int(k.Int64()) < maxBits {
					maxBits = mb - int(k.Int64())
					if maxBits < 0 {
						maxBits = 0
					}
				}
			}
		}
	}
	return
}

func andConst(x string, c *big.Int) string {
	// sum over runs of set bits: ((x div 2^k) mod 2^m) * 2^k
	var parts []string
	n := c.BitLen()
	for i := 0; i < n; {
		if c.Bit(i) == 0 {
			i++
			continue
		}
		j := i
		for j < n && c.Bit(j) == 1 {
			j++
		}
		parts = append(parts, fmt.Sprintf("(* (mod (div %s %s) %s) %s)", x, pow2(i), pow2(j-i), pow2(i)))
		i = j
	}
	if len(parts) == 0 {
		return "0"
	}
	if len(parts) == 1 {
		return parts[0]
	}
	return "(+ " + strings.Join(parts, " ") + ")"
}

func isNilConst(v ssa.Value) bool { c, ok := v.(*ssa.Const); return ok && c.Value == nil }

func (a *Act) binop(in *ssa.BinOp, reach string) string {
	return a.g.binopTerm(in.Op, in.X.Type(), in.Type(), a.val(in.X), a.val(in.Y), in.X, in.Y, func() { a.safety("div0", in, reach, fmt.Sprintf("(not (= %s 0))", a.val(in.Y)), "division by zero") }, a.nm(in.Name()), reach)
}

// binopTerm is shared by the SSA executor and the contract evaluator (X, Y may be nil there).
func (g *Gen) binopTerm(op token.Token, t, rt types.Type, x, y string, X, Y ssa.Value, div0 func(), base, reach string) string {
	isStr := isString(t)
	switch op {
	case token.ADD:
		if isStr {
			return fmt.Sprintf("(scat %s %s)", x, y)
		}
		return wrap(rt, fmt.Sprintf("(+ %s %s)", x, y))
	case token.SUB:
		return wrap(rt, fmt.Sprintf("(- %s %s)", x, y))
	case token.MUL:
		return wrap(rt, fmt.Sprintf("(* %s %s)", x, y))
	case token.QUO:
		if div0 != nil {
			div0()
		}
		if _, signed, _ := intBits(t); !signed {
			return fmt.Sprintf("(div %s %s)", x, y)
		}
		return fmt.Sprintf("(ite (>= %s 0) (div %s %s) (- (div (- %s) %s)))", x, x, y, x, y)
	case token.REM:
		if div0 != nil {
			div0()
		}
		if _, signed, _ := intBits(t); !signed {
			return fmt.Sprintf("(mod %s %s)", x, y)
		}
		return fmt.Sprintf("(ite (>= %s 0) (mod %s %s) (- (mod (- %s) %s)))", x, x, y, x, y)
	case token.EQL, token.NEQ:
		eq := fmt.Sprintf("(= %s %s)", x, y)
		if isStr {
			_, xc := X.(*ssa.Const)
			_, yc := Y.(*ssa.Const)
			if X != nil && Y != nil && !xc && !yc {
				// extensional equality (same truth value; gives the solver the witness index for a disequality)
				eq = fmt.Sprintf("(seqeq %s %s)", x, y)
			}
		}
		if at, ok := t.Underlying().(*types.Array); ok && at.Len() <= 32 {
			// element-wise comparison of small arrays (no array equality: extensionality reasoning is expensive)
			var parts []string
			for i := int64(0); i < at.Len(); i++ {
				parts = append(parts, fmt.Sprintf("(= (select %s %d) (select %s %d))", x, i, y, i))
			}
			if len(parts) == 0 {
				eq = "true"
			} else {
				eq = "(and " + strings.Join(parts, " ") + ")"
			}
		}
		other := ""
		if Y != nil && isNilConst(Y) || y == "nilSlice" || y == "nilPtr" {
			other = x
		} else if X != nil && isNilConst(X) || x == "nilSlice" || x == "nilPtr" {
			other = y
		}
		if other != "" {
			switch t.Underlying().(type) {
			case *types.Slice:
				eq = fmt.Sprintf("(= (sref %s) 0)", other)
			case *types.Pointer:
				eq = fmt.Sprintf("(= (pref %s) 0)", other)
			}
		}
		if op == token.NEQ {
			return fmt.Sprintf("(not %s)", eq)
		}
		return eq
	case token.LSS:
		if isStr {
			break
		}
		return fmt.Sprintf("(< %s %s)", x, y)
	case token.LEQ:
		if isStr {
			break
		}
		return fmt.Sprintf("(<= %s %s)", x, y)
	case token.GTR:
		if isStr {
			break
		}
		return fmt.Sprintf("(> %s %s)", x, y)
	case token.GEQ:
		if isStr {
			break
		}
		return fmt.Sprintf("(>= %s %s)", x, y)
	case token.SHL:
		if k, ok := termConst(y); ok && k.IsInt64() && k.Int64() < 64 {
			return wrap(rt, fmt.Sprintf("(* %s %s)", x, pow2(int(k.Int64()))))
		}
	case token.SHR:
		if k, ok := termConst(y); ok && k.IsInt64() && k.Int64() < 64 {
			if _, signed, _ := intBits(t); !signed {
				return fmt.Sprintf("(div %s %s)", x, pow2(int(k.Int64())))
			}
			return fmt.Sprintf("(div %s %s)", x, pow2(int(k.Int64()))) // floor division = arithmetic shift
		}
	case token.AND, token.OR, token.XOR, token.AND_NOT:
		if isBool(t) {
			break
		}
		cx, okx := termConst(x)
		cy, oky := termConst(y)
		var v string
		var c *big.Int
		if oky && cy.Sign() >= 0 {
			v, c = x, cy
		} else if okx && cx.Sign() >= 0 && op != token.AND_NOT {
			v, c = y, cx
		}
		if c != nil {
			and := andConst(v, c)
			switch op {
			case token.AND:
				return and
			case token.AND_NOT:
				return fmt.Sprintf("(- %s %s)", v, and)
			case token.OR:
				return wrap(rt, fmt.Sprintf("(- (+ %s %s) %s)", v, c.String(), and))
			case token.XOR:
				return wrap(rt, fmt.Sprintf("(- (+ %s %s) (* 2 %s))", v, c.String(), and))
			}
		}
		if op == token.OR && X != nil && Y != nil {
			mx, lx := knownBits(X, 0)
			my, ly := knownBits(Y, 0)
			if mx <= ly || my <= lx {
				return fmt.Sprintf("(+ %s %s)", x, y)
			}
		}
		// symbolic on both sides: uninterpreted with range axioms only (nothing depending on the exact value is provable)
		if _, signed, ok := intBits(t); ok && !signed {
			switch op {
			case token.AND:
				return fmt.Sprintf("(bitand %s %s)", x, y)
			case token.OR:
				return wrap(rt, fmt.Sprintf("(bitor %s %s)", x, y))
			case token.XOR:
				return wrap(rt, fmt.Sprintf("(bitxor %s %s)", x, y))
			}
		}
	}
	// fallback: uninterpreted
	g.note("UNINTERPRETED binop %s on %s", op, t)
	n := g.havoc(base+"_uf", g.sortOf(rt))
	g.assumeIf(reach, rangeFact(rt, n))
	return n
}

func termConst(s string) (*big.Int, bool) {
	if s == "" {
		return nil, false
	}
	for _, c := range s {
		if c < '0' || c > '9' {
			return nil, false
		}
	}
	i, ok := new(big.Int).SetString(s, 10)
	return i, ok
}

func (a *Act) unop(in *ssa.UnOp, st *State, reach string) {
	g := a.g
	x := a.val(in.X)
	switch in.Op {
	case token.NOT:
		a.bind(in, fmt.Sprintf("(not %s)", x))
	case token.SUB:
		a.bind(in, wrap(in.Type(), fmt.Sprintf("(- %s)", x)))
	case token.XOR:
		bits, signed, _ := intBits(in.Type())
		if signed {
			a.bind(in, fmt.Sprintf("(- (- %s) 1)", x))
		} else {
			a.bind(in, fmt.Sprintf("(- %s %s)", new(big.Int).Sub(new(big.Int).Lsh(big.NewInt(1), uint(bits)), big.NewInt(1)).String(), x))
		}
	case token.MUL: // load
		if !derivedAddr(in.X) {
			a.safety("nil-deref", in, reach, fmt.Sprintf("(not (= (pref %s) 0))", x), "nil pointer dereference (load)")
		}
		if cv, ok := g.constCell[x]; ok {
			a.bind(in, cv)
		} else {
			a.bind(in, a.load(st, in.Type(), fmt.Sprintf("(pref %s)", x), fmt.Sprintf("(poff %s)", x)))
		}
		g.assumeIf(reach, rangeFact(in.Type(), a.env[in]))
		g.assumeIf(reach, a.loadedWF(in.Type(), a.env[in], st))
		if gl, ok := in.X.(*ssa.Global); ok {
			a.globalFacts(gl, in, reach, st)
		}
		if _, isFV := in.X.(*ssa.FreeVar); isFV && g.eng.curModes.NonNilParams && a.top {
			// captured variables of a closure verified on its own: same API-usage assumption as for parameters
			switch in.Type().Underlying().(type) {
			case *types.Pointer:
				g.assumeIf(reach, fmt.Sprintf("(> (pref %s) 0)", a.env[in]))
			case *types.Interface, *types.Signature:
				g.assumeIf(reach, fmt.Sprintf("(not (= %s nilIface))", a.env[in]))
			}
		}
		// bridge between element loads of a []string and its spec-level sequence view (gives the solver the qat term)
		if ia, ok := in.X.(*ssa.IndexAddr); ok && isString(in.Type()) {
			if _, isSlice := ia.X.Type().Underlying().(*types.Slice); isSlice {
				s := a.val(ia.X)
				g.assumeIf(reach, fmt.Sprintf("(= %s (qat (qofarr (select %s (sref %s)) (soff %s) (sllen %s)) %s))", a.env[in], st.H["Q"], s, s, s, a.val(ia.Index)))
			}
		}
	case token.ARROW:
		a.recvOp(in, st, reach)
	default:
		a.unsupported(in, reach, st)
	}
}

// loadedWF: well-formedness of a loaded value, including struct fields
func (a *Act) loadedWF(t types.Type, v string, st *State) string {
	if s, ok := t.Underlying().(*types.Struct); ok {
		var parts []string
		sort := a.g.sortOf(t)
		for i := 0; i < s.NumFields(); i++ {
			f := fmt.Sprintf("(%s_f%d %s)", sort, i, v)
			if wf := a.loadedWF(s.Field(i).Type(), f, st); wf != "" {
				parts = append(parts, wf)
			}
			if rf := rangeFact(s.Field(i).Type(), f); rf != "" {
				parts = append(parts, rf)
			}
		}
		if len(parts) == 0 {
			return ""
		}
		return "(and " + strings.Join(parts, " ") + ")"
	}
	return a.g.heapValWF(t, v, st)
}

// heap well-formedness of a loaded value (Go memory safety): refs are allocated, slices are sane
func (g *Gen) heapValWF(t types.Type, v string, st *State) string {
	switch u := t.Underlying().(type) {
	case *types.Slice:
		typed := ""
		if tg := leafTag(u.Elem()); tg != 0 {
			typed = fmt.Sprintf(" (slTyped %s %d)", v, tg)
		}
		return fmt.Sprintf("(and (< (sref %s) %s) (= (sref %s) (sref %s)) (<= 0 (soff %s)) (<= 0 (sllen %s)) (<= (sllen %s) (scap %s)) (=> (= (sref %s) 0) (= (scap %s) 0)) (=> (> (sref %s) 0) (%s (rtype (sref %s))))%s)", v, st.Next, v, v, v, v, v, v, v, v, v, g.typePred("ar", u.Elem()), v, typed)
	case *types.Pointer:
		return fmt.Sprintf("(and (< (pref %s) %s) (=> (= (pref %s) 0) (= (poff %s) 0)) (=> (> (pref %s) 0) (%s (rtype (pref %s)))))", v, st.Next, v, v, v, g.typePred("pt", u.Elem()), v)
	case *types.Map, *types.Chan:
		// a map/channel object contains nothing else: its allocation type is exactly the map/channel type
		return fmt.Sprintf("(and (>= %s 0) (< %s %s) (=> (not (= %s 0)) (= (rtype %s) %d)))", v, v, st.Next, v, v, g.allocTag(objKey(u)))
	case *types.Signature:
		if g.eng.curModes.NonNilParams {
			return fmt.Sprintf("(not (= %s nilIface))", v)
		}
	case *types.Interface:
		if g.eng.curModes.NonNilParams {
			// interface values do not hold typed nil pointers (sweep assumption: values come from the decoders / constructors)
			return fmt.Sprintf("(and (=> (is-bPtr (ibox %s)) (and (> (pref (ubPtr (ibox %s))) 0) (< (pref (ubPtr (ibox %s))) %s))) (=> (is-bSlice (ibox %s)) (< (sref (ubSlice (ibox %s))) %s)) (=> (= (itag %s) 0) (= %s nilIface)))", v, v, v, st.Next, v, v, st.Next, v, v)
		}
		return fmt.Sprintf("(and (=> (is-bPtr (ibox %s)) (< (pref (ubPtr (ibox %s))) %s)) (=> (is-bSlice (ibox %s)) (< (sref (ubSlice (ibox %s))) %s)) (=> (= (itag %s) 0) (= %s nilIface)))", v, v, st.Next, v, v, st.Next, v, v)
	}
	return ""
}

func (a *Act) globalFacts(gl *ssa.Global, in *ssa.UnOp, reach string, st *State) {
	g := a.g
	et := gl.Type().(*types.Pointer).Elem()
	if et.String() == "error" {
		// package-level error variables are initialised with errors.New/fmt.Errorf and never reassigned (checked by eng.globalsAssigned)
		if !g.eng.globalReassigned(gl) {
			g.assumeIf(reach, fmt.Sprintf("(and (not (= %s nilIface)) (= %s (mkIface %d (bOpaque %d))))", a.env[in], a.env[in], g.tag(types.NewPointer(et)), g.eng.globalID(gl)))
		}
		return
	}
	// immutable package-level values (never reassigned): same value at every load
	if !g.eng.globalReassigned(gl) {
		if slots(et) == 1 {
			name := fmt.Sprintf("glob_%d", g.eng.globalID(gl))
			if !g.specUsed["decl:"+name] {
				g.specUsed["decl:"+name] = true
				g.out = append(g.out, fmt.Sprintf("(declare-fun %s () %s)", name, g.sortOf(et)))
			}
			g.assumeIf(reach, fmt.Sprintf("(= %s %s)", a.env[in], name))
		}
	}
}

func (a *Act) convert(in *ssa.Convert, st *State, reach string) {
	g := a.g
	x := a.val(in.X)
	from, to := in.X.Type().Underlying(), in.Type().Underlying()
	_, _, fok := intBits(from)
	if _, _, tok := intBits(to); tok && fok {
		a.bind(in, wrap(in.Type(), x))
		return
	}
	if fs, ok := from.(*types.Slice); ok {
		if isString(to) && slots(fs.Elem()) == 1 {
			a.bind(in, fmt.Sprintf("(sofarr (select %s (sref %s)) (soff %s) (sllen %s))", st.H["I"], x, x, x))
			return
		}
	}
	if isString(from) {
		if ts, ok := to.(*types.Slice); ok {
			if b, ok := ts.Elem().Underlying().(*types.Basic); ok && b.Kind() == types.Uint8 {
				ref := a.alloc(st, a.nm(in.Name()), arrAlloc(ts.Elem()))
				st.H["I"] = g.def("HI", heapSort["I"], fmt.Sprintf("(store %s %s (arrofseq %s))", st.H["I"], ref, x))
				a.bind(in, fmt.Sprintf("(mkSlice %s 0 (slen %s) (slen %s))", ref, x, x))
				return
			}
		}
	}
	if _, _, fok := intBits(from); fok && isString(to) {
		// string(rune): opaque non-empty string
		n := a.bindHavoc(in, reach, st)
		g.assumeIf(reach, fmt.Sprintf("(and (>= (slen %s) 1) (<= (slen %s) 4))", n, n))
		return
	}
	if b, ok := to.(*types.Basic); ok && b.Info()&types.IsFloat != 0 {
		a.bindHavoc(in, reach, st)
		return
	}
	if b, ok := from.(*types.Basic); ok && b.Info()&types.IsFloat != 0 {
		a.bindHavoc(in, reach, st)
		return
	}
	a.unsupported(in, reach, st)
}

func (a *Act) sliceOp(in *ssa.Slice, st *State, reach string) {
	x := a.val(in.X)
	lo := "0"
	if in.Low != nil {
		lo = a.val(in.Low)
	}
	switch xt := in.X.Type().Underlying().(type) {
	case *types.Slice:
		hi := fmt.Sprintf("(sllen %s)", x)
		if in.High != nil {
			hi = a.val(in.High)
		}
		mx := fmt.Sprintf("(scap %s)", x)
		if in.Max != nil {
			mx = a.val(in.Max)
		}
		a.safety("slice", in, reach, fmt.Sprintf("(and (<= 0 %s) (<= %s %s) (<= %s %s) (<= %s (scap %s)))", lo, lo, hi, hi, mx, mx, x), "slice bounds in range")
		stride := slots(xt.Elem())
		a.bind(in, fmt.Sprintf("(mkSlice (sref %s) (+ (soff %s) %s) (- %s %s) (- %s %s))", x, x, mulConst(stride, lo), hi, lo, mx, lo))
	case *types.Basic: // string
		hi := fmt.Sprintf("(slen %s)", x)
		if in.High != nil {
			hi = a.val(in.High)
		}
		a.safety("slice", in, reach, fmt.Sprintf("(and (<= 0 %s) (<= %s %s) (<= %s (slen %s)))", lo, lo, hi, hi, x), "string slice bounds in range")
		a.bind(in, fmt.Sprintf("(ssub %s %s %s)", x, lo, hi))
	case *types.Pointer: // *array
		arr := xt.Elem().Underlying().(*types.Array)
		n := fmt.Sprint(arr.Len())
		hi := n
		if in.High != nil {
			hi = a.val(in.High)
		}
		mx := n
		if in.Max != nil {
			mx = a.val(in.Max)
		}
		if _, isAlloc := in.X.(*ssa.Alloc); !isAlloc {
			a.safety("nil-deref", in, reach, fmt.Sprintf("(not (= (pref %s) 0))", x), "nil pointer dereference (slice of array)")
		}
		a.safety("slice", in, reach, fmt.Sprintf("(and (<= 0 %s) (<= %s %s) (<= %s %s) (<= %s %s))", lo, lo, hi, hi, mx, mx, n), "slice bounds in range")
		a.bind(in, fmt.Sprintf("(mkSlice (pref %s) (+ (poff %s) %s) (- %s %s) (- %s %s))", x, x, mulConst(slots(arr.Elem()), lo), hi, lo, mx, lo))
	default:
		a.unsupported(in, reach, st)
	}
}

// mapKey packs a key into an Int (byte arrays big-endian; strings are not supported as keys of modelled maps)
func (a *Act) mapKey(t types.Type, k string) string {
	switch u := t.Underlying().(type) {
	case *types.Array:
		n := int(u.Len())
		if n <= 8 {
			var parts []string
			for i := 0; i < n; i++ {
				parts = append(parts, fmt.Sprintf("(* %s (select %s %d))", pow2(8*(n-1-i)), k, i))
			}
			return "(+ 0 " + strings.Join(parts, " ") + ")"
		}
	case *types.Basic:
		if u.Info()&types.IsString != 0 {
			return fmt.Sprintf("(strkey %s)", k)
		}
		return k
	case *types.Interface:
		return fmt.Sprintf("(ifacekey %s)", k)
	case *types.Struct, *types.Pointer:
		// unsupported key kinds: an uninterpreted key (lookups are sound but imprecise)
		return fmt.Sprintf("(ifacekey (mkIface 0 (bOpaque 0)))")
	}
	return k
}

func isConstLike(v ssa.Value) bool {
	switch v.(type) {
	case *ssa.Const, *ssa.Global, *ssa.Function, *ssa.Builtin:
		return true
	}
	return false
}

func sortedStrKeys(m map[string]string) []string {
	var ks []string
	for k := range m {
		ks = append(ks, k)
	}
	sort.Strings(ks)
	return ks
}

// leafTag: the slot type tag of a one-slot basic value (0: not a basic leaf). Distinct basic kinds never share a slot.
func leafTag(t types.Type) int {
	if b, ok := t.Underlying().(*types.Basic); ok && b.Kind() != types.String && b.Info()&types.IsUntyped == 0 {
		return int(b.Kind()) + 1
	}
	return 0
}
