#!/bin/sh
# Build the verification engine offline from files on disk only.
set -e
cd "$(dirname "$0")/engine"
export GOFLAGS=-mod=mod GOPROXY=off GOSUMDB=off GOTOOLCHAIN=local
cp /repo/go.sum go.sum.repo 2>/dev/null || true
go build -o ../bin/govc .
echo "govc built"
