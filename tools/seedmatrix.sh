#!/bin/bash
# usage: tools/seedmatrix.sh [outfile]   -- runs, for every validated seeded change, the checks of the property it was
# written against and of the related properties, in scratch copies of /repo and /verif (nothing in /repo or /verif changes)
set -u
OUT=${1:-/verif/seeded/RESULTS.txt}; FILTER=${2:-.}
MX=/tmp/verif-mx-$$
export GOFLAGS=-mod=mod GOPROXY=off GOSUMDB=off GOTOOLCHAIN=local
mkdir -p $MX
git -C /repo worktree remove --force $MX/repo >/dev/null 2>&1
git -C /repo worktree add --detach $MX/repo HEAD >/dev/null 2>&1 || { echo "worktree failed"; exit 1; }
rsync -a --exclude work --exclude .git --exclude replays /verif/ $MX/verif/
cleanup() { git -C /repo worktree remove --force $MX/repo >/dev/null 2>&1; rm -rf $MX; }
trap cleanup EXIT
related() { case $1 in
  C01) echo "C01 C07";; C02) echo "C02 C05 C19";; C03) echo "C03 C05";; C04) echo "C04";; C05) echo "C05";;
  C06) echo "C06 C07 C02";; C07) echo "C07";; C08) echo "C08";; C15) echo "C15";; C16) echo "C16";; C17) echo "C17 C19";;
  C18) echo "C18 C03";; C14) echo "C14 C08";; C11) echo "C11 C12";; C12) echo "C12 C11";; C10) echo "C10";; C13) echo "C13";; C19) echo "C19";; C20) echo "C20";; *) echo "$1";; esac; }
claimed=$(python3 -c "import json;print(' '.join(c['property_id'] for c in json.load(open('/verif/MANIFEST.json'))['checks']))")
: > $OUT.tmp
for d in /verif/seeded/C*-*; do
  s=$(basename $d); id=${s%-*}
  [ -f $d/patch.diff ] || continue; echo $s | grep -Eq "$FILTER" || continue
  if ! git -C $MX/repo apply $d/patch.diff 2>/dev/null; then echo "$s: patch does not apply to HEAD" >> $OUT.tmp; continue; fi
  line="$s:"
  for c in $(related $id); do
    case " $claimed " in *" $c "*) ;; *) line="$line $c=unclaimed"; continue;; esac
    out=$($MX/verif/bin/govc -repo $MX/repo -verif $MX/verif check $c quick 2>&1); rc=$?
    nv=$(echo "$out" | grep -c "^VIOLATION")
    first=$(echo "$out" | grep "failed obligation" | head -1 | sed 's/^ *failed obligation: //' | cut -c1-110)
    if [ $rc -eq 1 ]; then line="$line $c=CAUGHT($nv) [$first]"; elif [ $rc -eq 0 ]; then line="$line $c=missed"; else line="$line $c=engine-error(rc=$rc)"; fi
  done
  echo "$line" >> $OUT.tmp
  git -C $MX/repo apply -R $d/patch.diff
done
mv $OUT.tmp $OUT
echo "matrix written to $OUT"
