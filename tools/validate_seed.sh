#!/bin/bash
# usage: validate_seed.sh <Cxx> <k>   -- validates /tmp/seedout/Cxx/k against /repo HEAD in a scratch worktree and,
# if valid, stores it as /verif/seeded/Cxx-k/ (patch.diff, demo, meta.json)
set -u
ID=$1; K=$2
SRC=${SEEDSRC:-/tmp/seedout}/$ID/$K
OUTK=${OUTK:-$K}
WT=/tmp/seedval-$ID-$K
export GOFLAGS=-mod=mod GOPROXY=off GOSUMDB=off GOTOOLCHAIN=local
[ -f $SRC/patch.diff ] || { echo "$ID/$K: no patch"; exit 1; }
git -C /repo worktree remove --force $WT >/dev/null 2>&1
git -C /repo worktree add --detach $WT HEAD >/dev/null 2>&1 || { echo "$ID/$K: worktree failed"; exit 1; }
cleanup() { git -C /repo worktree remove --force $WT >/dev/null 2>&1; }
trap cleanup EXIT
DEMO=$(python3 -c "import json;print(json.load(open('$SRC/notes.json'))['demo_test_path'])" 2>/dev/null)
RUN=$(python3 -c "import json;print(json.load(open('$SRC/notes.json'))['demo_run_cmd'])" 2>/dev/null)
[ -n "$DEMO" ] || { echo "$ID/$K: no demo path"; exit 1; }
DEMOFILE=$(ls $SRC/*_test.go | head -1)
cd $WT
# 1. demo passes on unchanged code
mkdir -p $(dirname $DEMO); cp $DEMOFILE $DEMO
PKG=./$(dirname $DEMO)/
if ! go test -vet=off -count=1 -timeout 300s -run TestSeedDemo $PKG >/tmp/seedval-$ID-$K.base.log 2>&1; then echo "$ID/$K: INVALID demo fails on unchanged HEAD"; exit 2; fi
rm -f $DEMO
# 2. patch applies
if ! git apply $SRC/patch.diff 2>/tmp/seedval-$ID-$K.apply.log; then echo "$ID/$K: PATCH-DOES-NOT-APPLY to HEAD (made against c7f674d)"; exit 3; fi
# 3. builds and existing tests pass
if ! go build ./... >/tmp/seedval-$ID-$K.build.log 2>&1; then echo "$ID/$K: INVALID does not build"; exit 2; fi
if ! go test -vet=off -count=1 -timeout 900s ./... >/tmp/seedval-$ID-$K.test.log 2>&1; then echo "$ID/$K: INVALID existing tests fail"; exit 2; fi
# 4. demo fails with the change
cp $DEMOFILE $DEMO
if go test -vet=off -count=1 -timeout 300s -run TestSeedDemo $PKG >/tmp/seedval-$ID-$K.mut.log 2>&1; then echo "$ID/$K: INVALID demo passes with the change"; exit 2; fi
OUT=/verif/seeded/$ID-$OUTK
mkdir -p $OUT
cp $SRC/patch.diff $OUT/patch.diff
cp $DEMOFILE $OUT/$(basename $DEMO)
python3 - <<PY
import json
n=json.load(open('$SRC/notes.json'))
meta={"property":"$ID","breaks":n.get("what_it_breaks"),"needs_to_manifest":n.get("what_it_needs_to_manifest"),"why_existing_tests_pass":n.get("why_existing_tests_pass"),
 "files_changed":n.get("files_changed"),"demo_test_path":"$DEMO","demo_run_cmd":n.get("demo_run_cmd"),
 "validated":"in a scratch worktree of /repo HEAD: demo passes unchanged; patch applies; go build ./... ok; go test -vet=off -count=1 ./... all packages pass with the patch; demo fails with the patch",
 "origin":"independent sub-agent given only the property text (worked at the pinned commit c7f674d)"}
json.dump(meta,open('$OUT/meta.json','w'),indent=1)
PY
echo "$ID/$K: VALID -> $OUT"
