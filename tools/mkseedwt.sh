#!/bin/bash
# usage: mkseedwt.sh <name>  -- scratch worktree of /repo HEAD for an independent sub-agent, without the contract files
set -e
WT=/tmp/seedwt-$1
git -C /repo worktree remove --force $WT >/dev/null 2>&1 || true
git -C /repo worktree add --detach $WT HEAD >/dev/null 2>&1
find $WT -name "verif_*.go" -delete
# hide the deletions from git diff / status
(cd $WT && git ls-files -d | xargs -r git update-index --assume-unchanged)
mkdir -p /tmp/seedout/$1
echo $WT
