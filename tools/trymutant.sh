#!/bin/sh
# usage: trymutant.sh <patch.diff> <command...>   : apply patch to /repo, run command in /verif, restore /repo
P="$1"; shift
git -C /repo apply "$P" || { echo "PATCH DOES NOT APPLY"; exit 3; }
cd /verif
"$@"; rc=$?
git -C /repo checkout -- .
echo "exit=$rc"
