#!/bin/sh
# usage: trymutant.sh <patch.diff> <command...>   : apply patch to /repo, run command in /verif, un-apply the patch
# (never `git checkout -- .`: that would also discard uncommitted contract edits). The evidence files are put back
# afterwards: evidence of a run on a changed tree must never be committed.
P="$1"; shift
git -C /repo apply "$P" || { echo "PATCH DOES NOT APPLY"; exit 3; }
cd /verif
SAVE=$(mktemp -d /tmp/evsave.XXXXXX); cp -a evidence/. "$SAVE"/
"$@"; rc=$?
git -C /repo apply -R "$P" || echo "WARNING: could not un-apply $P"
cp -a "$SAVE"/. evidence/; rm -rf "$SAVE"
echo "exit=$rc"
