#!/bin/sh
# usage: trymutant.sh <patch.diff> <command...>   : apply patch to /repo, run command in /verif, un-apply the patch
# (never `git checkout -- .`: that would also discard uncommitted contract edits)
P="$1"; shift
git -C /repo apply "$P" || { echo "PATCH DOES NOT APPLY"; exit 3; }
cd /verif
"$@"; rc=$?
git -C /repo apply -R "$P" || echo "WARNING: could not un-apply $P"
echo "exit=$rc"
