#!/usr/bin/env python3
"""Regenerates /verif/MANIFEST.json from tools/claims.json (claimed properties) and properties.jsonl."""
import json, os, subprocess
V = '/verif'
props = [json.loads(l)['id'] for l in open(f'{V}/properties.jsonl')]
claims = json.load(open(f'{V}/tools/claims.json'))
hooks = subprocess.run(['git', '-C', '/repo', 'log', '--format=%H %s'], capture_output=True, text=True).stdout.strip().split('\n')
src = [l.split()[0] for l in hooks if l.split(' ', 1)[1].startswith(('verif:', 'fix:'))]
checks = []
for p in props:
    if p not in claims['claimed']:
        continue
    c = claims['claimed'][p]
    checks.append({
        "property_id": p,
        "quick_cmd": f"./check {p} quick",
        "thorough_cmd": f"./check {p} thorough",
        "evidence_file": f"/verif/evidence/{p}.json",
        "replay_cmd_template": "./check replay {path}",
        "engine": "govc",
        "level_claimed": {"category": "proof", "text": c['text'], "design_ref": c.get('design_ref', 'DESIGN.md section 8')},
        "level_note": c['note'],
        "technique": c.get('technique', "contract-based deductive verification: weakest-precondition style VCs generated from go/ssa of the real code + //@ contracts, discharged by z3/cvc5"),
    })
na = [{"property_id": p, "reason": claims['not_applicable'].get(p, "check not built yet (work in progress; see DESIGN.md section 8)")} for p in props if p not in claims['claimed']]
m = {
 "version": 1,
 "setup_cmd": "./setup.sh",
 "hooks": {"guard": "verif", "enable": "go build -tags verif ./...  (contracts, specification functions, lemmas and ghost clients live in /repo/<pkg>/verif_*.go (verif_contracts.go, verif_builders.go, verif_relay.go, verif_client.go), //go:build verif; add-only files)",
           "baseline_off_cmd": "for m in $(cat /w/out/gomods.txt); do MF=$(cd /repo/$m && . /w/out/goenv.sh && gomodflag); (cd /repo/$m && go test $MF -json -vet=off -count=1 -timeout 25m ./...); done",
           "source_commits": src, "add_only": True},
 "engines": [{"name": "govc", "path": "engine", "serves_properties": [c['property_id'] for c in checks],
              "kind_free_text": "verification-condition generator over go/ssa of the real code (x/tools v0.29.0) + contracts in //@ comments + pure-Go specification functions translated to SMT; one query per obligation, discharged by z3 5.1.0 / z3 4.8.12 / cvc5 1.0"}],
 "checks": checks,
 "notes": claims.get('notes', ''),
 "not_applicable": na,
}
json.dump(m, open(f'{V}/MANIFEST.json', 'w'), indent=1)
print(f"{len(checks)} checks, {len(na)} not applicable, {len(src)} source commits")
