#!/bin/bash
# ./check selftest : must-fail / must-pass corpus for the engine itself, run in scratch copies (nothing in /repo or
# /verif changes). Exit 0 iff every expectation holds.
#   canaries : each "fix:" commit reverted  -> the check of its property must report a VIOLATION
#   seeds    : a few seeded changes          -> must be reported
#   benign   : harmless edits                -> must NOT be reported
#   trap     : a contradictory precondition  -> must be flagged as vacuity (engine error), never as success
set -u
export GOFLAGS=-mod=mod GOPROXY=off GOSUMDB=off GOTOOLCHAIN=local
MX=/tmp/verif-selftest-$$
mkdir -p $MX
git -C /repo worktree add --detach $MX/repo HEAD >/dev/null 2>&1 || { echo "worktree failed"; exit 2; }
rsync -a --exclude work --exclude .git --exclude replays /verif/ $MX/verif/
cleanup() { git -C /repo worktree remove --force $MX/repo >/dev/null 2>&1; rm -rf $MX; }
trap cleanup EXIT
fail=0
run() { $MX/verif/bin/govc -repo $MX/repo -verif $MX/verif check $1 quick >$MX/out.txt 2>&1; echo $?; }
expect() { # name want rc
  if [ "$2" = "$3" ]; then echo "ok    $1 (rc=$3)"; else echo "FAIL  $1: expected rc=$2, got rc=$3"; tail -3 $MX/out.txt | cut -c1-200; fail=1; fi; }
reset() { git -C $MX/repo checkout -q -- . ; }
# canaries: revert the fix commits (recorded in known_findings.json)
python3 - <<'PY' > $MX/canaries.txt
import json
seen=set()
for f in json.load(open('/verif/known_findings.json')):
    if f.get('status')=='fixed' and (f['commit'],f['property']) not in seen:
        seen.add((f['commit'],f['property'])); print(f['commit'], f['property'])
PY
while read commit prop; do
  if git -C $MX/repo diff $commit~1 $commit -- . ':(exclude)*verif_contracts.go' | git -C $MX/repo apply -R 2>/dev/null; then
    expect "canary: fix $commit reverted -> $prop alarms" 1 $(run $prop)
  else echo "skip  canary $commit (does not revert cleanly on HEAD)"; fi
  reset
done < $MX/canaries.txt
# seeds
for s in C19-1:C19 C04-1:C04 C07-1:C07 C05-2:C05 C18-1:C18 C13-1:C13 C13-2:C13 C11-3:C11 C02-5:C02 C16-1:C16 C14-3:C14; do
  d=${s%%:*}; c=${s##*:}
  git -C $MX/repo apply /verif/seeded/$d/patch.diff 2>/dev/null || { echo "skip  seed $d"; continue; }
  expect "seed $d -> $c alarms" 1 $(run $c); reset
done
# own mutants (selftest/mut-<Cxx>-n.diff): must be reported by the check of that property
for p in /verif/selftest/mut-*.diff; do
  c=$(basename $p | cut -d- -f2)
  git -C $MX/repo apply $p 2>/dev/null || { echo "skip  $(basename $p)"; continue; }
  expect "mutant $(basename $p) -> $c alarms" 1 $(run $c); reset
done
# benign edits (selftest/benign-n.diff against C07, selftest/benign-<Cxx>-n.diff against that property)
for p in /verif/selftest/benign-*.diff; do
  c=$(basename $p | cut -d- -f2); case $c in C[0-9][0-9]) ;; *) c=C07;; esac
  git -C $MX/repo apply $p 2>/dev/null || { echo "skip  $(basename $p)"; continue; }
  expect "benign $(basename $p) -> $c quiet" 0 $(run $c); reset
done
# vacuity trap: a contradictory precondition must not verify silently
sed -i 's|^//@ contract labelToBytes$|//@ contract labelToBytes\n//@   requires len(label) < 0|' $MX/repo/rfc1035label/verif_contracts.go
rc=$(run C19); if [ "$rc" != "0" ] && grep -q "vacuity" $MX/out.txt; then echo "ok    trap: contradictory requires flagged as vacuity (rc=$rc)"; else echo "FAIL  trap: contradictory requires not flagged as vacuity (rc=$rc)"; fail=1; fi
reset
exit $fail
