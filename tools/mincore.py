#!/usr/bin/env python3
"""mincore.py query.smt2 [first_line]: greedy minimal unsat subset of the (assert ...) lines after first_line (prelude kept)."""
import sys, subprocess, tempfile, os
lines = open(sys.argv[1]).read().split('\n')
first = int(sys.argv[2]) if len(sys.argv) > 2 else 0
def run(ls):
    f = tempfile.NamedTemporaryFile('w', suffix='.smt2', delete=False); f.write('\n'.join(ls)); f.close()
    r = subprocess.run(['z3-new', '-T:5', f.name], capture_output=True, text=True).stdout.strip().split('\n')[0]
    os.unlink(f.name); return r
assert run(lines) == 'unsat', 'not unsat'
cand = [i for i, l in enumerate(lines) if i >= first and l.startswith('(assert ') and not l.startswith('(assert (not (=>')]
keep = set(cand)
# chunked deletion
chunk = max(1, len(cand) // 8)
while chunk >= 1:
    i = 0
    order = sorted(keep)
    while i < len(order):
        trial = keep - set(order[i:i+chunk])
        ls = [l for j, l in enumerate(lines) if j not in set(cand) or j in trial]
        if run(ls) == 'unsat':
            keep = trial
        i += chunk
    chunk //= 2
for j in sorted(keep):
    print(j + 1, lines[j][:400])
