#!/bin/bash
# usage: seedprompt.sh <Cxx> <name> [hint]   -- prints the prompt for an independent sub-agent
ID=$1; NAME=$2; HINT=${3:-}
TITLE=$(jq -r "select(.id==\"$ID\") | .title" /verif/properties.jsonl)
STMT=$(jq -r "select(.id==\"$ID\") | .statement" /verif/properties.jsonl)
cat <<P
You are testing how well a verification effort detects regressions in the Go library insomniacslk/dhcp (DHCPv4/DHCPv6 packet encoding/decoding, minimal clients nclient4/nclient6, UDP servers server4/server6).

You have your own scratch git worktree of the library at /tmp/seedwt-$NAME (work ONLY there; never touch /repo or /verif, never read anything under /verif). Every shell command must first run:
  export GOFLAGS=-mod=mod GOPROXY=off GOSUMDB=off GOTOOLCHAIN=local
(the sandbox has no network). Run the existing tests with:  cd /tmp/seedwt-$NAME && go test -vet=off -count=1 ./...

Here is a semantic property the library is supposed to satisfy:

  "$TITLE": $STMT

Your task: write ONE realistic change to the library's non-test Go source (the kind of plausible slip or "simplification" a maintainer might make - not sabotage that is obvious at a glance) that BREAKS this property while the code still compiles and ALL existing tests still pass. The break should need something specific to manifest (an unusual input, a particular interleaving, a multi-step sequence, a particular configuration, or two cooperating sites that each look fine alone), not something ordinary use would expose at once. $HINT
Do not edit or add *_test.go files as part of the change, do not touch go.mod/go.sum, and do not add new dependencies.

Then write a demonstration: a Go test file containing a function named TestSeedDemo (in the package of the code under test, file name zz_seed_demo_test.go) which PASSES on the unchanged library and FAILS with your change applied. It must be deterministic (no reliance on wall-clock races; use scripted in-memory connections / generous timeouts where needed) and finish within 60 s.

Verify all of it yourself: (1) with your change, go build ./... and the full existing test suite pass; (2) the demo fails with the change; (3) revert the change with "git diff > /tmp/seedout/'$NAME'/patch.diff && git apply -R /tmp/seedout/'$NAME'/patch.diff" (NEVER use git stash: the stash is shared between worktrees), check the demo passes on the unchanged code, then restore the change with "git apply /tmp/seedout/'$NAME'/patch.diff".

Deliverables, written to /tmp/seedout/$NAME/ :
  - patch.diff : output of 'git diff' in the worktree containing ONLY your change to non-test source (do not include the demo test file in it)
  - zz_seed_demo_test.go : the demonstration test file
  - notes.json : {"what_it_breaks": "...", "what_it_needs_to_manifest": "...", "why_existing_tests_pass": "...", "files_changed": ["..."], "demo_test_path": "<path of the demo file relative to the repo root, e.g. dhcpv4/zz_seed_demo_test.go>", "demo_run_cmd": "go test -vet=off -count=1 -run TestSeedDemo ./<pkg>/"}
Finally remove the demo file from the worktree again (leave only your source change applied) and report in two or three sentences what you changed.
P
